from common import *
def exc(f):
    try: f(); return "OK"
    except Exception as e: return type(e).__name__
rng=np.random.default_rng(0)
LABELS=['x','y','z','r','theta','phi']
valid = dict(Grid1D='x',CylindricalGrid1D='r',SphericalGrid1D='r',Grid2D='xy',CylindricalGrid2D='rz',PolarGrid2D=['r','theta'],Grid3D='xyz',CylindricalGrid3D=['r','theta','z'],SphericalGrid3D=['r','theta','phi'])
for name in GRIDS:
    m,_ = rand_grid(rng,name,nmax=2)
    row=[]
    for L in LABELS:
        ok = L in list(valid[name])
        for prop in ('cellsize','cellcenters','facecenters'):
            r = exc(lambda: getattr(getattr(m,prop),L))
            exp = "OK" if ok else "AttributeError"
            if r!=exp: row.append((prop,L,'get',r))
            r = exc(lambda: setattr(getattr(m,prop),L, np.zeros(3)))
            if r!="AttributeError": row.append((prop,L,'set',r))
        f = pf.FaceVariable(m, 1.0)
        r = exc(lambda: getattr(f, L+'value')); exp = "OK" if ok else "AttributeError"
        if r!=exp: row.append(('face',L,'get',r))
        r = exc(lambda: setattr(f, L+'value', np.zeros(3))); 
        if r!=exp: row.append(('face',L,'set',r))
    print(name, row)
# shapes
for name in GRIDS:
    m,_ = rand_grid(rng,name,nmax=3,nmin=2)
    d = tuple(int(x) for x in m.dims)
    res=[]
    for shp,exp in [(d,"OK"),(tuple(x+2 for x in d),"OK"),(tuple(x+1 for x in d),"ValueError"),(d+(1,),"ValueError"),((1,),"OK"),((),"OK"),(tuple(x+3 for x in d),"ValueError"), (d[::-1] if len(d)>1 and d!=d[::-1] else tuple(x+1 for x in d),"ValueError")]:
        r = exc(lambda: pf.CellVariable(m, np.zeros(shp)))
        if r!=exp: res.append((shp,r))
    r = exc(lambda: pf.CellVariable(m, [0.0]*d[0]));  res.append(('list',r))
    print(name,d,res)
# BC coefficient type
print(exc(lambda: pf.boundary.BoundaryFace(1.0, np.array([0.]), np.array([0.]))), exc(lambda: pf.boundary.BoundaryFace([1.0], np.array([0.]), np.array([0.]))))
# unknown term
m = pf.Grid1D(3,1.0); c = pf.CellVariable(m,1.0)
for t in ["abc", 3.0, None, np.zeros((2,2,2)), (np.zeros(5), np.zeros(5)), {'a':1}, [np.zeros(5)]]:
    print(type(t).__name__, exc(lambda: pf.solvePDE(c,[pf.linearSourceTerm(c), t])))
