from solveprob import *
rng=np.random.default_rng(78)
W={}
for name in ('Grid1D','Grid2D','Grid3D','PolarGrid2D','CylindricalGrid3D'):
  for t in range(40):
    P=rand_lowdim_problem(rng,name,nmax=4,uniform=True)
    nd=NDIM[name]
    axs=[a for a,k in enumerate(AXES[name]) if k!='r']
    ax=axs[rng.integers(len(axs))]
    P['bc'][ax]=dict(periodic=True)
    # make face fields periodic on ax
    for F in (P['D'],P['u']):
        idx0=[slice(None)]*nd; idx1=[slice(None)]*nd; idx0[ax]=0; idx1[ax]=-1
        F[ax][tuple(idx1)]=F[ax][tuple(idx0)]
    n=np.asarray(P['init']).shape[ax]; k=int(rng.integers(1,n+1))
    Q=dict(P)
    for key in ('init','beta','gamma','alpha'): Q[key]=np.roll(P[key],k,axis=ax)
    def rollface(F,a):
        if a==ax:
            core=np.delete(F,-1,axis=ax); r=np.roll(core,k,axis=ax)
            first=np.take(r,[0],axis=ax); return np.concatenate([r,first],axis=ax)
        return np.roll(F,k,axis=ax)
    Q['D']=[rollface(F,a) for a,F in enumerate(P['D'])]; Q['u']=[rollface(F,a) for a,F in enumerate(P['u'])]
    bc=[]
    for a,ent in enumerate(P['bc']):
        if ent['periodic'] or a==ax: bc.append(ent); continue
        rem=[b for b in range(nd) if b!=a]; kk=rem.index(ax); shp=[np.asarray(P['init']).shape[b] for b in rem]
        bc.append(dict(periodic=False,lo=tuple(np.roll(np.asarray(x).reshape(shp),k,axis=kk) for x in ent['lo']),hi=tuple(np.roll(np.asarray(x).reshape(shp),k,axis=kk) for x in ent['hi'])))
    Q['bc']=bc
    a=build_and_solve(P); b=build_and_solve(Q); sl=tuple(slice(1,-1) for _ in range(nd))
    err=max(np.abs(np.roll(x[sl],k,axis=ax)-y[sl]).max()/(np.abs(x).max()+1e-300) for x,y in zip(a,b))
    key=name+'-'+P['scheme']; W[key]=max(W.get(key,0),err)
print({k:f"{v:.1e}" for k,v in sorted(W.items())})
