from common import *
rng=np.random.default_rng(111)
def vol(name,faces):
    f=faces
    if name=='Grid1D': return np.diff(f[0])
    if name=='Grid2D': return np.diff(f[0])[:,None]*np.diff(f[1])[None,:]
    if name=='Grid3D': return np.diff(f[0])[:,None,None]*np.diff(f[1])[None,:,None]*np.diff(f[2])[None,None,:]
    r2=np.diff(f[0]**2); r3=np.diff(f[0]**3)
    if name=='CylindricalGrid1D': return np.pi*r2
    if name=='SphericalGrid1D': return 4*np.pi/3*r3
    if name=='CylindricalGrid2D': return np.pi*r2[:,None]*np.diff(f[1])[None,:]
    if name=='PolarGrid2D': return 0.5*r2[:,None]*np.diff(f[1])[None,:]
    if name=='CylindricalGrid3D': return 0.5*r2[:,None,None]*np.diff(f[1])[None,:,None]*np.diff(f[2])[None,None,:]
    if name=='SphericalGrid3D': return r3[:,None,None]/3*(-np.diff(np.cos(f[1])))[None,:,None]*np.diff(f[2])[None,None,:]
for name in GRIDS:
    iss=set(); worst=0
    for t in range(200):
        ax=AXES[name]; ns=[int(rng.integers(1,6)) for _ in ax]
        faces=[rand_faces(rng,k,n) for k,n in zip(ax,ns)]
        m=make_grid(name,faces)
        if tuple(int(x) for x in m.dims)!=tuple(ns): iss.add('dims')
        for a,(nm) in enumerate(['_x','_y','_z'][:len(ax)]):
            f=faces[a]
            if not np.array_equal(getattr(m.facecenters,nm),f): iss.add('faces')
            if not np.allclose(getattr(m.cellcenters,nm),0.5*(f[1:]+f[:-1]),rtol=1e-15,atol=0): iss.add('centers')
            cs=getattr(m.cellsize,nm); dfz=np.diff(f)
            if not (np.array_equal(cs[1:-1],dfz) and cs[0]==dfz[0] and cs[-1]==dfz[-1]): iss.add('sizes')
        V=m.cellvolume; Vx=vol(name,faces)
        if V.shape!=tuple(ns): iss.add('volshape')
        rel=np.abs(V-Vx).max()/np.abs(Vx).max(); worst=max(worst,rel)
        if (V<=0).any(): iss.add('nonpos')
        # (N,L) form
        Ls=[float(rng.uniform(0.5,3)) for _ in ax]
        m1=getattr(pf,name)(*ns,*Ls); m2=getattr(pf,name)(*[np.linspace(0,L,n+1) for n,L in zip(ns,Ls)])
        for nm in ['_x','_y','_z'][:len(ax)]:
            for prop in ('cellsize','cellcenters','facecenters'):
                a1=getattr(getattr(m1,prop),nm); a2=getattr(getattr(m2,prop),nm)
                if a1.shape!=a2.shape or np.abs(a1-a2).max()>8*np.finfo(float).eps*max(Ls): iss.add('NLform-'+prop)
    print(name,sorted(iss),f"vol rel err {worst:.1e}")
