from common import *
rng = np.random.default_rng(11)
def fresh_solve(m, interior_vals, BCsrc, terms_fn):
    import copy
    BC = copy.deepcopy(BCsrc)
    f = pf.CellVariable(m, np.array(interior_vals), BC)
    pf.solvePDE(f, terms_fn(f)); return f
m = pf.Grid1D(np.array([0,0.3,0.7,1.0,1.6]))
D = pf.FaceVariable(m, 1.0)
def terms(v): return [pf.transientTerm(v, 0.1, 1.0), -pf.diffusionTerm(D)]
# 1 explicit -> implicit
a = pf.CellVariable(m, rng.uniform(0,1,4)); a.BCs.left.fixedValue(2.0)
e = pf.solveExplicitPDE(a, 0.01, pf.diffusionTerm(D)@a._value)
try:
    pf.solvePDE(e, terms(e)); print("1 explicit->implicit ok")
except Exception as ex: print("1 explicit->implicit FAIL", repr(ex))
# 2 shared BC
BC = pf.BoundaryConditions(m)
A = pf.CellVariable(m, rng.uniform(0,1,4), BC); B = pf.CellVariable(m, rng.uniform(0,1,4), BC)
BC.left.fixedValue(3.0)
pf.solvePDE(A, terms(A))
vb = B.value.copy()
pf.solvePDE(B, terms(B))
F = fresh_solve(m, vb, BC, terms)
print("2 shared BC: B vs fresh", np.abs(B.value-F.value).max())
# 2b shared: apply_BCs on A then explicit on B
BC = pf.BoundaryConditions(m)
A = pf.CellVariable(m, rng.uniform(0,1,4), BC); B = pf.CellVariable(m, rng.uniform(0,1,4), BC)
BC.right.fixedValue(-1.0); A.apply_BCs()
e = pf.solveExplicitPDE(B, 0.01, pf.diffusionTerm(D)@B._value)
Bf = pf.CellVariable(m, B.value.copy(), __import__('copy').deepcopy(BC))
ef = pf.solveExplicitPDE(Bf, 0.01, pf.diffusionTerm(D)@Bf._value)
print("2b shared BC explicit: ", np.abs(e._value-ef._value).max(), " (rhs uses stale ghosts too)")
# 3 value edits
A = pf.CellVariable(m, rng.uniform(0,1,4)); A.BCs.left.fixedValue(1.0); pf.solvePDE(A, terms(A))
A.value[1:3] = 7.0
va = A.value.copy(); pf.solvePDE(A, terms(A)); F = fresh_solve(m, va, A.BCs, terms)
print("3 value slice:", np.abs(A.value-F.value).max())
A.value = rng.uniform(0,1,4); va=A.value.copy(); pf.solvePDE(A, terms(A)); F = fresh_solve(m, va, A.BCs, terms)
print("3b value assign:", np.abs(A.value-F.value).max())
# 4 update_value
A2 = pf.CellVariable(m, rng.uniform(0,1,4)); A.update_value(A2); va=A.value.copy()
pf.solvePDE(A, terms(A)); F = fresh_solve(m, va, A.BCs, terms)
print("4 update_value:", np.abs(A.value-F.value).max())
# 5 periodic toggle
A.BCs.left.periodic=True; va=A.value.copy(); pf.solvePDE(A, terms(A)); F=fresh_solve(m, va, A.BCs, terms)
print("5 periodic on:", np.abs(A.value-F.value).max())
A.BCs.left.periodic=False; va=A.value.copy(); pf.solvePDE(A, terms(A)); F=fresh_solve(m, va, A.BCs, terms)
print("5 periodic off:", np.abs(A.value-F.value).max())
# 6 copy independence
C = A.copy(); C.BCs.right.fixedValue(9.0); C.value[:] = 0
print("6 copy: A.BC.right.b", A.BCs.right.b, "A.value", A.value)
# 7 transient term uses phi._value at time of creation; terms created BEFORE an edit? (user program order) skip
# 8 edit BC between transientTerm creation and solve
A = pf.CellVariable(m, rng.uniform(0,1,4)); t = terms(A); A.BCs.left.fixedValue(5.0); va=A.value.copy(); pf.solvePDE(A,t)
F = fresh_solve(m, va, A.BCs, terms); print("8 edit after term build:", np.abs(A.value-F.value).max())
# 9 explicit solver result shares BCs with input: edit via result
a = pf.CellVariable(m, rng.uniform(0,1,4)); e = pf.solveExplicitPDE(a, 0.01, pf.diffusionTerm(D)@a._value)
print("9 shares BC object:", e.BCs is a.BCs)
# 10 BCsTerm_precalc False then solvePDE
try:
    z = pf.CellVariable(m, 1.0, BCsTerm_precalc=False); pf.solvePDE(z, terms(z)); print("10 ok")
except Exception as ex: print("10 precalc False FAIL", repr(ex))
# 11 arithmetic results with pending BC edits on the operand
A = pf.CellVariable(m, rng.uniform(0,1,4)); A.BCs.left.fixedValue(5.0)   # pending
S = A + 1.0
print("11 sum ghost consistent:", S._value[0], 2*5.0 - S._value[1], " BCs modified flag:", S.BCs.modified)
va=S.value.copy(); pf.solvePDE(S, terms(S)); F=fresh_solve(m, va, S.BCs, terms); print("11b:", np.abs(S.value-F.value).max())
