"""C01(b): open-boundary operator identity with an INDEPENDENT oracle for boundary face fluxes and areas."""
from divfree import *
rng=np.random.default_rng(91)
def geom(name,m):
    """true geometric volumes and face areas (oracle)"""
    d=len(m.dims); cs,cc,fc=axis_arrays(m)
    def b(a,ax): s=[1]*d; s[ax]=-1; return np.asarray(a).reshape(s)
    if name.startswith('Grid'):
        return face_areas(name,m)
    r_f=fc[0]; dr2=(r_f[1:]**2-r_f[:-1]**2)/2; dr=cs[0]
    if name=='CylindricalGrid1D': return 2*np.pi*dr2,[2*np.pi*r_f]
    if name=='SphericalGrid1D': return 4*np.pi*(r_f[1:]**3-r_f[:-1]**3)/3,[4*np.pi*r_f**2]
    if name=='CylindricalGrid2D':
        dz=cs[1]; return 2*np.pi*b(dr2,0)*b(dz,1),[2*np.pi*b(r_f,0)*b(dz,1), 2*np.pi*b(dr2,0)*np.ones((1,len(fc[1])))]
    if name=='PolarGrid2D':
        dth=cs[1]; return b(dr2,0)*b(dth,1),[b(r_f,0)*b(dth,1), b(dr,0)*np.ones((1,len(fc[1])))]
    if name=='CylindricalGrid3D':
        dth=cs[1]; dz=cs[2]
        return b(dr2,0)*b(dth,1)*b(dz,2),[b(r_f,0)*b(dth,1)*b(dz,2), b(dr,0)*np.ones((1,len(fc[1]),1))*b(dz,2), b(dr2,0)*b(dth,1)*np.ones((1,1,len(fc[2])))]
    if name=='SphericalGrid3D':  # implied measure (K1)
        return face_areas(name,m)
def metric_h(name,m,ax):
    d=len(m.dims); cs,cc,fc=axis_arrays(m); k=AXES[name][ax]
    def b(a,axx): s=[1]*d; s[axx]=-1; return np.asarray(a).reshape(s)
    if k in ('x','r'): return 1.0
    if k in ('th_c','th_s'): return b(cc[0],0)
    return b(cc[0],0)*b(np.sin(cc[1]),1)
for name in GRIDS:
    W={}
    for t in range(40):
        m,_=rand_grid(rng,name,nmax=3); d=len(m.dims)
        V,A=geom(name,m)
        if name!='SphericalGrid3D':
            assert np.allclose(np.broadcast_to(V,m.cellvolume.shape),m.cellvolume), name
        phi=full_var(rng,m); x=phi._value; D=rand_face(rng,m,0.1,2); u=rand_face(rng,m,-1,1,zeros=0.2)
        cs=[m.cellsize._x,m.cellsize._y,m.cellsize._z][:d]
        Dc=[D._xvalue,D._yvalue,D._zvalue][:d]; uc=[u._xvalue,u._yvalue,u._zvalue][:d]
        tot=dict(diff=0.0,conv=0.0,up=0.0,div=0.0)
        for ax in range(d):
            Aa=np.broadcast_to(A[ax],face_shapes(m)[ax])
            for side in (0,1):
                sl=[slice(1,-1)]*d; sg=[slice(1,-1)]*d; sf=[slice(None)]*d
                if side==0: sl[ax]=1; sg[ax]=0; sf[ax]=0; sgn=-1.0; dxe=cs[ax][0]
                else: sl[ax]=-2; sg[ax]=-1; sf[ax]=-1; sgn=+1.0; dxe=cs[ax][-1]
                inn=x[tuple(sl)]; gh=x[tuple(sg)]
                h=metric_h(name,m,ax); 
                if not np.isscalar(h): h=np.squeeze(np.take(np.broadcast_to(h,[int(n) for n in m.dims]),0 if side==0 else -1,axis=ax)) if False else np.broadcast_to(h,[int(n) for n in m.dims])[tuple([slice(None) if a!=ax else (0 if side==0 else -1) for a in range(d)])]
                grad=(gh-inn)/(h*dxe) if side==1 else (inn-gh)/(h*dxe)
                fb=0.5*(gh+inn)
                Af=Aa[tuple(sf)]; Df=Dc[ax][tuple(sf)]; uf=uc[ax][tuple(sf)]
                # outward flux of each term through this boundary face: term = +div(F): F_diff = D grad ; F_conv = u*phi_f
                tot['diff']+= (sgn*Af*Df*grad).sum()
                tot['conv']+= (sgn*Af*uf*fb).sum()
                inflow = (uf*sgn<0)
                up = np.where(uf==0, fb, np.where(inflow, fb, inn))
                tot['up']+= (sgn*Af*uf*up).sum()
                tot['div']+= (sgn*Af*uf).sum()
        xs=x.ravel()
        lhs=dict(diff=(V*interior(m,pf.diffusionTerm(D)@xs)).sum(), conv=(V*interior(m,pf.convectionTerm(u)@xs)).sum(),
                 up=(V*interior(m,pf.convectionUpwindTerm(u)@xs)).sum(), div=(V*interior(m,pf.divergenceTerm(u))).sum())
        for k in tot:
            sc=abs(tot[k])+abs(lhs[k])+1e-300
            # use scale of sum |V T phi|
            W[k]=max(W.get(k,0),abs(lhs[k]-tot[k])/ (np.abs(V).sum()*1+abs(tot[k])+1e-300))
    print(name,{k:f"{v:.1e}" for k,v in W.items()})
