REGULAR=True
import sys; sys.path.insert(0,'/tmp/deps')
import sympy as sp
from prob import *
COORD=dict(Grid1D=['x'],CylindricalGrid1D=['r'],SphericalGrid1D=['r'],Grid2D=['x','y'],CylindricalGrid2D=['r','z'],PolarGrid2D=['r','t'],
           Grid3D=['x','y','z'],CylindricalGrid3D=['r','t','z'],SphericalGrid3D=['r','t','p'])
def scale_factors(name, X):
    if name.startswith('Grid'): return [1]*len(X)
    if name=='CylindricalGrid1D': return [1]
    if name=='SphericalGrid1D': return [1]
    if name=='CylindricalGrid2D': return [1,1]
    if name=='PolarGrid2D': return [1,X[0]]
    if name=='CylindricalGrid3D': return [1,X[0],1]
    if name=='SphericalGrid3D': return [1,X[0],X[0]*sp.sin(X[1])]
def jac(name, X):
    # full 3D jacobian h1h2h3 (including suppressed coordinates)
    if name.startswith('Grid'): return 1
    if name.startswith('Cylindrical') or name=='PolarGrid2D': return X[0]
    return X[0]**2*(sp.sin(X[1]) if len(X)>1 else 1)
def make_mms(name, rng, scheme):
    X=[sp.Symbol(s,real=True) for s in COORD[name]]; nd=len(X)
    h=scale_factors(name,X); J=jac(name,X)
    # smooth fields
    def smooth(amp=1.0,base=0.0,odd=False):
        prod=1
        for j,xi in enumerate(X):
            if j==0 and REGULAR:
                prod=prod*(1+rng.uniform(0.2,0.5)*sp.cos(rng.uniform(0.5,1.5)*xi))
            elif REGULAR:
                prod=prod*(1+X[0]**2*rng.uniform(0.2,0.5)*sp.sin(rng.uniform(0.5,1.5)*xi+rng.uniform(0,6)))
            else:
                prod=prod*(1+rng.uniform(0.2,0.5)*sp.sin(rng.uniform(0.5,1.5)*xi+rng.uniform(0,6)))
        return base+amp*prod
    phi=smooth(1.0, rng.uniform(-1,1))
    D=[smooth(0.3,1.0) for _ in X]   # one D function per component (face-wise anisotropy allowed by API)
    Dsc=smooth(0.3,1.0); D=[Dsc]*nd   # isotropic D
    u=[(X[0] if (REGULAR and j==0) else 1)*smooth(0.5,rng.uniform(-0.5,0.5)) for j,_ in enumerate(X)] if scheme!='none' else [0*X[0]]*nd
    beta=smooth(0.3,0.5)
    grad=[sp.diff(phi,X[i])/h[i] for i in range(nd)]
    flux=[u[i]*phi - D[i]*grad[i] for i in range(nd)]
    div=sum(sp.diff(J/h[i]*flux[i],X[i]) for i in range(nd))/J
    gamma=div+beta*phi
    f=lambda e: sp.lambdify(X,e,'numpy')
    return dict(X=X,phi=f(phi),D=[f(d) for d in D],u=[f(c) for c in u],beta=f(beta),gamma=f(gamma),grad=[f(g) for g in grad])
def bcast(m, vals_per_axis):
    return np.meshgrid(*vals_per_axis, indexing='ij')
def solve_mms(name, mms, faces, bckinds, scheme):
    m=make_grid(name,faces); nd=len(faces)
    cc=[m.cellcenters._x,m.cellcenters._y,m.cellcenters._z][:nd]; fc=[m.facecenters._x,m.facecenters._y,m.facecenters._z][:nd]
    ev=lambda f,pts: np.broadcast_to(f(*bcast(m,pts)), tuple(len(p) for p in pts)).astype(float)
    comps=[]
    Dc=[];uc=[]
    for a in range(nd):
        pts=[fc[b] if b==a else cc[b] for b in range(nd)]
        Dc.append(ev(mms['D'][a],pts)); uc.append(ev(mms['u'][a],pts))
    pad=lambda l: l+[np.array([])]*(3-len(l))
    D=pf.FaceVariable(m,*pad(Dc)); u=pf.FaceVariable(m,*pad(uc))
    BC=pf.BoundaryConditions(m)
    for a in range(nd):
        for side,sn in enumerate(SIDES[a]):
            pts=[np.array([fc[b][0 if side==0 else -1]]) if b==a else cc[b] for b in range(nd)]
            phib=ev(mms['phi'],pts); gb=ev(mms['grad'][a],pts)
            f=getattr(BC,sn); shp=f.a.shape
            kind=bckinds[a][side]
            if kind=='D': A=0.0;B=1.0
            elif kind=='N': A=1.0;B=0.0
            else: A=(1.0 if side==1 else -1.0)*0.7; B=1.3
            f.a[:]=A; f.b[:]=B; f.c[:]=(A*gb+B*phib).reshape(f.c.shape)
    c=pf.CellVariable(m,0.0,BC)
    beta=pf.CellVariable(m,ev(mms['beta'],cc)); gamma=pf.CellVariable(m,ev(mms['gamma'],cc))
    tl=[-pf.diffusionTerm(D),pf.linearSourceTerm(beta),pf.constantSourceTerm(gamma)]
    if scheme=='central': tl.append(pf.convectionTerm(u))
    if scheme=='upwind': tl.append(pf.convectionUpwindTerm(u))
    pf.solvePDE(c,tl)
    ex=ev(mms['phi'],cc)
    return np.abs(c.value-ex).max()
def graded(a,b,n,g):
    s=np.linspace(0,1,n+1); return a+(b-a)*(s+g*s*(1-s))

rng=np.random.default_rng(62)
DOM=dict(x=(0.3,1.5),r=(0.0,1.6),th_c=(0.3,2.0),th_s=(0.6,2.2),ph=(0.2,1.8))
for name in ['CylindricalGrid1D','SphericalGrid1D','CylindricalGrid2D','PolarGrid2D','CylindricalGrid3D','SphericalGrid3D']:
    for scheme in ('none','central','upwind'):
        out=[]
        for t in range(3):
            mms=make_mms(name,rng,scheme)
            kinds=[[rng.choice(['D','N','R']) for _ in range(2)] for _ in AXES[name]]
            kinds[0][0]='N'   # symmetry at the axis
            if all(k=='N' for pair in kinds for k in pair): kinds[0][1]='D'
            g=rng.uniform(-0.4,0.4) if t>0 else 0.0
            errs=[]
            for n in ((8,16,32) if NDIM[name]<3 else (6,12,24)):
                faces=[graded(*DOM[k],n,g) for k in AXES[name]]
                errs.append(solve_mms(name,mms,faces,kinds,scheme))
            out.append((round(float(np.log2(errs[0]/errs[1])),2),round(float(np.log2(errs[1]/errs[2])),2),f"{errs[2]:.1e}",''.join(k for p in kinds for k in p)))
        print(name,scheme,out)
print("---- 1D deep refinement upwind r0=0")
rng=np.random.default_rng(5)
for name in ['SphericalGrid1D','CylindricalGrid1D']:
    for t in range(4):
        mms=make_mms(name,rng,'upwind'); kinds=[['N',rng.choice(['D','R'])]]
        errs=[solve_mms(name,mms,[graded(0.0,1.6,n,0.3)],kinds,'upwind') for n in (16,32,64,128,256,512)]
        print(name,[round(float(np.log2(a/b)),2) for a,b in zip(errs[:-1],errs[1:])],f"{errs[-1]:.1e}")
