from common import *
rng = np.random.default_rng(1)
def relerr(a,b):
    s = max(np.abs(a).max(), np.abs(b).max(), 1e-300)
    return np.abs(a-b).max()/s
for name in GRIDS:
    worst = dict(diff=0, conv=0, up=0, up2=0, tvd0=0, tvd1=0)
    for uniform in (False, True):
      for t in range(30):
        m,_ = rand_grid(rng, name, nmax=4, uniform=uniform)
        phi = full_var(rng, m)
        D = rand_face(rng, m, 0.1, 2)
        u = rand_face(rng, m, -1, 1, zeros=0.15)
        uu = rand_face(rng, m, -1, 1, zeros=0.15)
        x = phi._value.ravel()
        try:
            a = interior(m, pf.diffusionTerm(D)@x); b = interior(m, pf.divergenceTerm(D*pf.gradientTerm(phi)))
            worst['diff']=max(worst['diff'], relerr(a,b))
        except Exception as e: worst['diff']=repr(e)[:60]
        try:
            a = interior(m, pf.convectionTerm(u)@x); b = interior(m, pf.divergenceTerm(u*pf.linearMean(phi)))
            worst['conv']=max(worst['conv'], relerr(a,b))
        except Exception as e: worst['conv']=repr(e)[:60]
        try:
            a = interior(m, pf.convectionUpwindTerm(u)@x); b = interior(m, pf.divergenceTerm(u*pf.upwindMean(phi,u)))
            worst['up']=max(worst['up'], relerr(a,b))
        except Exception as e: worst['up']=repr(e)[:60]
        try:
            a = interior(m, pf.convectionUpwindTerm(u,uu)@x); b = interior(m, pf.divergenceTerm(u*pf.upwindMean(phi,uu)))
            worst['up2']=max(worst['up2'], relerr(a,b))
        except Exception as e: worst['up2']=repr(e)[:60]
        try:
            z = pf.convectionTVDupwindRHSTerm(u, phi, lambda r: 0.0*r)
            worst['tvd0']=max(worst['tvd0'], np.abs(z).max())
        except Exception as e: worst['tvd0']=repr(e)[:60]
        if uniform:
          try:
            z = pf.convectionTVDupwindRHSTerm(u, phi, lambda r: 0.0*r+1.0)
            a = interior(m, pf.convectionUpwindTerm(u)@x - z); b = interior(m, pf.convectionTerm(u)@x)
            worst['tvd1']=max(worst['tvd1'], relerr(a,b))
          except Exception as e: worst['tvd1']=repr(e)[:60]
    print(name, {k:(f"{v:.1e}" if not isinstance(v,str) else v) for k,v in worst.items()})
