from divfree import *
rng=np.random.default_rng(51)
for name in GRIDS:
    w=dict(fix=0,inf=0,zero=0,expl=0,untouched=0,order=[])
    for t in range(20):
        m,_=rand_grid(rng,name,nmax=3); d=tuple(int(x) for x in m.dims)
        bc=rand_bc(rng,m,name,kinds=('D','N','R'))
        # ensure non-singular: beta>0
        beta=rng.uniform(0.2,1,d); gamma=rng.uniform(-1,1,d)
        D=rand_face(rng,m,0.1,2); u=rand_face(rng,m,-1,1)
        mk=lambda init: pf.CellVariable(m,init,apply_bc(pf.BoundaryConditions(m),bc))
        sp=lambda : [-pf.diffusionTerm(D),pf.convectionUpwindTerm(u),pf.linearSourceTerm(pf.CellVariable(m,beta)),pf.constantSourceTerm(pf.CellVariable(m,gamma))]
        st=mk(np.zeros(d)); pf.solvePDE(st,sp())
        star=st.value.copy()
        for dt in 10.0**rng.uniform(-6,6,3):
            alpha=rng.uniform(0.5,2,d) if rng.random()<0.5 else float(rng.uniform(0.5,2))
            c=mk(star.copy()); pf.solvePDE(c,[pf.transientTerm(c,dt,alpha)]+sp())
            w['fix']=max(w['fix'],np.abs(c.value-star).max()/np.abs(star).max())
        old=rng.uniform(-1,1,d)
        c=mk(old.copy()); pf.solvePDE(c,[pf.transientTerm(c,1e12,1.0)]+sp()); w['inf']=max(w['inf'],np.abs(c.value-star).max()/np.abs(star).max())
        c=mk(old.copy()); pf.solvePDE(c,[pf.transientTerm(c,1e-12,1.0)]+sp()); w['zero']=max(w['zero'],np.abs(c.value-old).max()/np.abs(old).max())
        # explicit
        c=mk(old.copy()); snap=c._value.copy()
        def rhs(c): 
            M=-pf.diffusionTerm(D)+pf.convectionUpwindTerm(u)+pf.linearSourceTerm(pf.CellVariable(m,beta))
            return -(M@c._value.ravel())+pf.constantSourceTerm(pf.CellVariable(m,gamma))
        errs=[]
        for dt in (1e-3,5e-4):
            R=rhs(c); e=pf.solveExplicitPDE(c,dt,R)
            w['untouched']=max(w['untouched'],np.abs(c._value-snap).max())
            w['expl']=max(w['expl'],np.abs(e.value-(old+dt*interior(m,R))).max())
            ci=mk(old.copy()); pf.solvePDE(ci,[pf.transientTerm(ci,dt,1.0)]+sp())
            errs.append(np.abs(ci.value-e.value).max())
        w['order'].append(errs[0]/max(errs[1],1e-300))
    w['order']=f"{np.median(w['order']):.2f} [{min(w['order']):.2f},{max(w['order']):.2f}]"
    print(name,{k:(v if isinstance(v,str) else f"{v:.1e}") for k,v in w.items()})
