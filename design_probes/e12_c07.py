from divfree import *
rng=np.random.default_rng(41)
for name in GRIDS:
    worst=0; wcase=None; n=0
    for t in range(150):
        m,_=rand_grid(rng,name,nmax=4)
        d=tuple(int(x) for x in m.dims)
        spec=rand_bc(rng,m,name,kinds=('D','N0','P'))  # N0 handled below
        # build bc: D with random c, N0 = no flux
        bc=[]
        dir_vals=[]
        for ax,k in enumerate(AXES[name]):
            shp=bc_shape(m,ax)
            kind=rng.choice(['D','N0','P'] if k!='r' else ['D','N0'])
            if kind=='P': bc.append(dict(periodic=True)); continue
            e=dict(periodic=False)
            for side in ('lo','hi'):
                kk=rng.choice(['D','N0'])
                if kk=='D':
                    c=rng.uniform(-1,1,shp); e[side]=(np.zeros(shp),np.ones(shp),c); dir_vals.append(c)
                else: e[side]=(np.ones(shp),np.zeros(shp),np.zeros(shp))
            bc.append(e)
        BC=apply_bc(pf.BoundaryConditions(m),bc)
        init=rng.uniform(-1,1,d)
        nonneg = rng.random()<0.3
        if nonneg: init=np.abs(init); dir_vals=[np.abs(c) for c in dir_vals]; 
        # re-apply abs on BC c
        if nonneg:
            for ax,e in enumerate(bc):
                if not e['periodic']:
                    for side in ('lo','hi'):
                        a,b,c=e[side]; e[side]=(a,b,np.abs(c))
            BC=apply_bc(pf.BoundaryConditions(m),bc)
        c=pf.CellVariable(m,init,BC)
        contrast=10**rng.uniform(0,6)
        D=rand_face(rng,m,0,1); 
        for comp in (D._xvalue,D._yvalue,D._zvalue):
            if comp.size: comp*=10**rng.uniform(-np.log10(contrast),0,comp.shape); comp[rng.random(comp.shape)<0.1]=0.0
        u=divfree_u(rng,name,m,amp=10**rng.uniform(-2,1))
        beta=rng.uniform(0,2,d)*(rng.random()<0.5)
        dt=10**rng.uniform(-4,4)
        for step in range(3):
            prev=c.value.copy()
            los=[prev.min()]+[x.min() for x in dir_vals]; his=[prev.max()]+[x.max() for x in dir_vals]
            lo=min(los); hi=max(his)
            if beta.any(): lo=min(lo,0); hi=max(hi,0)
            pf.solvePDE(c,[pf.transientTerm(c,dt,1.0),-pf.diffusionTerm(D),pf.convectionUpwindTerm(u),pf.linearSourceTerm(pf.CellVariable(m,beta))])
            v=c.value; sc=max(abs(lo),abs(hi),hi-lo,1e-300)
            ex=max(lo-v.min(), v.max()-hi,0)/sc
            n+=1
            if ex>worst: worst=ex; wcase=(dt,contrast,[e['periodic'] for e in bc],d)
    print(name,f"worst overshoot {worst:.1e}",wcase)
