"""C12 derived bounds via ghost-eliminated operator A_eff."""
from divfree import *
import scipy.sparse as sps
rng=np.random.default_rng(101)
def eff(m, A, s, BC):
    """A: full csr (interior rows), s: full rhs; returns dense A_eff, s_eff on interior unknowns, plus G,g0"""
    Mb,Rb=pf.boundaryConditionsTerm(BC); Mb=Mb.toarray(); A=A.toarray()
    d=tuple(int(x) for x in m.dims); idx=np.arange(np.prod([x+2 for x in d])).reshape([x+2 for x in d])
    I=idx[tuple(slice(1,-1) for _ in d)].ravel()
    # ghost unknowns actually referenced = face ghosts
    G_=[]
    for ax in range(len(d)):
        for side in (0,-1):
            sl=[slice(1,-1)]*len(d); sl[ax]=side; G_.append(idx[tuple(sl)].ravel())
    Gi=np.concatenate(G_)
    Bgg=Mb[np.ix_(Gi,Gi)]; Bgi=Mb[np.ix_(Gi,I)]
    Gm=-np.linalg.solve(Bgg,Bgi); g0=np.linalg.solve(Bgg,Rb[Gi])
    Aii=A[np.ix_(I,I)]; Aig=A[np.ix_(I,Gi)]
    return Aii+Aig@Gm, s[I]-Aig@g0, I
for name in GRIDS:
    W=dict(inf=0,zero=0,expl=0,lead=0)
    for t in range(15):
        m,_=rand_grid(rng,name,nmax=3); d=tuple(int(x) for x in m.dims)
        bc=rand_bc(rng,m,name,kinds=('D','N','R','P')); 
        # avoid K2: periodic only if uniform ends -> just make grid uniform if any periodic
        if any(e['periodic'] for e in bc): m,_=rand_grid(rng,name,nmax=3,uniform=True); d=tuple(int(x) for x in m.dims); bc=rand_bc(rng,m,name,kinds=('D','N','R'))
        BC=apply_bc(pf.BoundaryConditions(m),bc)
        beta=rng.uniform(0.2,1,d); gamma=rng.uniform(-1,1,d); D=rand_face(rng,m,0.1,2); u=rand_face(rng,m,-1,1)
        A=-pf.diffusionTerm(D)+pf.convectionUpwindTerm(u)+pf.linearSourceTerm(pf.CellVariable(m,beta)); s=pf.constantSourceTerm(pf.CellVariable(m,gamma))
        Ae,se,I=eff(m,sps.csr_array(A),s,BC)
        alpha=rng.uniform(0.5,2,d).ravel()
        B=Ae/alpha[:,None]   # alpha^-1 A
        nB=np.abs(B).sum(1).max(); tau=1/nB
        star=np.linalg.solve(Ae,se)
        old=rng.uniform(-1,1,d)
        mk=lambda init: pf.CellVariable(m,init.copy(),apply_bc(pf.BoundaryConditions(m),bc))
        sp_=lambda : [-pf.diffusionTerm(D),pf.convectionUpwindTerm(u),pf.linearSourceTerm(pf.CellVariable(m,beta)),pf.constantSourceTerm(pf.CellVariable(m,gamma))]
        # inf
        for theta in (1e6,1e9,1e12):
            dt=theta*tau; c=mk(old); pf.solvePDE(c,[pf.transientTerm(c,dt,alpha.reshape(d))]+sp_())
            eps=np.abs(np.linalg.inv(B)).sum(1).max()/dt
            lhs=np.abs(c.value.ravel()-star).max(); rhs=eps/(1-eps)*np.abs(old.ravel()-star).max()
            W['inf']=max(W['inf'],(lhs-rhs)/(np.abs(star).max()))   # should be <= rounding
        for theta in (1e-12,1e-6,1e-1):
            dt=theta*tau; c=mk(old); pf.solvePDE(c,[pf.transientTerm(c,dt,alpha.reshape(d))]+sp_())
            r0=np.abs(B@old.ravel()-se/alpha).max()
            lhs=np.abs(c.value.ravel()-old.ravel()).max(); rhs=dt*r0/(1-theta)
            W['zero']=max(W['zero'],(lhs-rhs)/np.abs(old).max())
        # explicit vs implicit (alpha=1)
        nA=np.abs(Ae).sum(1).max()
        for theta in (1e-2,1e-3):
            dt=theta/nA; c=mk(old); R=-(A@c._value.ravel())+s; e=pf.solveExplicitPDE(c,dt,R)
            ci=mk(old); pf.solvePDE(ci,[pf.transientTerm(ci,dt,1.0)]+sp_())
            diff=ci.value.ravel()-e.value.ravel()
            lead=dt*dt*(Ae@(Ae@old.ravel()-se))
            bound=dt*dt*nA*np.abs(Ae@old.ravel()-se).max()/(1-theta)
            W['expl']=max(W['expl'],(np.abs(diff).max()-bound)/np.abs(old).max())
            W['lead']=max(W['lead'],np.abs(diff-lead).max()/(np.abs(lead).max()+1e-300)/theta)
    print(name,{k:f"{v:.1e}" for k,v in W.items()})
