"""Generic problem description -> pyfvtool objects. A problem is a plain dict (JSON-able)."""
from common import *
SIDES=[('left','right'),('bottom','top'),('back','front')]

def bc_shape(m, ax):
    d=tuple(int(x) for x in m.dims)
    if len(d)==1: return (1,)
    return tuple(d[i] for i in range(len(d)) if i!=ax)

def rand_bc(rng, m, name, kinds=('D','N','R','P'), uniform_per_face=False):
    """returns spec: list per axis of dict(periodic=bool, lo=(a,b,c), hi=(a,b,c))"""
    spec=[]
    for ax,k in enumerate(AXES[name]):
        shp=bc_shape(m,ax)
        allowed=[x for x in kinds if not (x=='P' and k=='r')]
        kind = allowed[rng.integers(len(allowed))]
        if kind=='P':
            spec.append(dict(periodic=True)); continue
        ent=dict(periodic=False)
        for side in ('lo','hi'):
            kk = [x for x in allowed if x!='P'][rng.integers(len([x for x in allowed if x!='P']))]
            def arr(lo,hi): 
                return np.full(shp, rng.uniform(lo,hi)) if uniform_per_face else rng.uniform(lo,hi,shp)
            if kk=='D': a=np.zeros(shp); b=np.ones(shp); c=arr(-1,1)
            elif kk=='N': a=np.ones(shp); b=np.zeros(shp); c=arr(-1,1)
            else:
                sgn = 1.0 if side=='hi' else -1.0
                a=sgn*arr(0.3,2); b=arr(0.3,2); c=arr(-1,1)
            ent[side]=(a,b,c); ent[side+'_kind']=kk
        spec.append(ent)
    return spec

def apply_bc(BC, spec):
    for ax,ent in enumerate(spec):
        lo,hi=SIDES[ax]
        if ent['periodic']:
            getattr(BC,lo).periodic=True; getattr(BC,hi).periodic=True
        else:
            for side,sn in (('lo',lo),('hi',hi)):
                a,b,c=ent[side]; f=getattr(BC,sn)
                f.a[:]=a.reshape(f.a.shape); f.b[:]=b.reshape(f.b.shape); f.c[:]=c.reshape(f.c.shape)
    return BC
