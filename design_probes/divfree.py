from solveprob import *
def axis_arrays(m):
    d=len(m.dims)
    cs=[m.cellsize._x[1:-1], m.cellsize._y[1:-1] if d>1 else None, m.cellsize._z[1:-1] if d>2 else None][:d]
    cc=[m.cellcenters._x, m.cellcenters._y if d>1 else None, m.cellcenters._z if d>2 else None][:d]
    fc=[m.facecenters._x, m.facecenters._y if d>1 else None, m.facecenters._z if d>2 else None][:d]
    return cs,cc,fc
def face_areas(name, m):
    """implied face-area factors A such that V*div = sum_axis (A_e F_e - A_w F_w); V = implied volume. returns (V, [A_ax...])"""
    d=len(m.dims); cs,cc,fc=axis_arrays(m)
    def bc(arr, ax):  # broadcast 1D array along axis ax
        shp=[1]*d; shp[ax]=-1; return np.asarray(arr).reshape(shp)
    one=lambda ax,face: np.ones(len(fc[ax]) if face else len(cc[ax]))
    # per axis: cell-measure factors w[ax] (cells) and face factor
    if name in ('Grid1D','Grid2D','Grid3D'):
        cw=[[cs[a] for a in range(d)]]  # volume = prod ds
        V=np.ones([len(c) for c in cc])
        for a in range(d): V=V*bc(cs[a],a)
        A=[]
        for a in range(d):
            Aa=np.ones([len(fc[b]) if b==a else len(cc[b]) for b in range(d)])
            for b in range(d):
                if b!=a: Aa=Aa*bc(cs[b],b)
            A.append(Aa)
        return V,A
    r_c=cc[0]; r_f=fc[0]; dr=cs[0]
    if name=='CylindricalGrid1D': return r_c*dr,[r_f*1.0]
    if name=='SphericalGrid1D': return (r_f[1:]**3-r_f[:-1]**3)/3,[r_f**2]
    if name=='CylindricalGrid2D':
        dz=cs[1]; return bc(r_c*dr,0)*bc(dz,1),[bc(r_f,0)*bc(dz,1), bc(r_c*dr,0)*np.ones((1,len(fc[1])))]
    if name=='PolarGrid2D':
        dth=cs[1]; return bc(r_c*dr,0)*bc(dth,1),[bc(r_f,0)*bc(dth,1), bc(dr,0)*np.ones((1,len(fc[1])))]
    if name=='CylindricalGrid3D':
        dth=cs[1]; dz=cs[2]
        V=bc(r_c*dr,0)*bc(dth,1)*bc(dz,2)
        return V,[bc(r_f,0)*bc(dth,1)*bc(dz,2), bc(dr,0)*np.ones((1,len(fc[1]),1))*bc(dz,2), bc(r_c*dr,0)*bc(dth,1)*np.ones((1,1,len(fc[2])))]
    if name=='SphericalGrid3D':
        dth=cs[1]; dph=cs[2]; th_c=cc[1]; th_f=fc[1]
        V=bc(r_c**2*dr,0)*bc(np.sin(th_c)*dth,1)*bc(dph,2)
        return V,[bc(r_f**2,0)*bc(np.sin(th_c)*dth,1)*bc(dph,2), bc(r_c*dr,0)*bc(np.sin(th_f),1)*bc(dph,2), bc(r_c*dr,0)*bc(dth,1)*np.ones((1,1,len(fc[2])))]
def divfree_u(rng, name, m, amp=1.0):
    d=len(m.dims); V,A=face_areas(name,m)
    shapes=face_shapes(m)
    comps=[np.zeros(s) for s in shapes]
    if d==1:
        q=rng.uniform(-1,1)*amp
        with np.errstate(all='ignore'):
            c=np.where(A[0]>0,q/np.where(A[0]>0,A[0],1),0.0)
        if (A[0]==0).any(): c[:]=0.0
        comps[0]=c
    else:
        import itertools
        for a,b in itertools.combinations(range(d),2):
            # psi on nodes in a,b; cells in others
            shp=[len(m.dims)and 0]*d
            shp=[ (int(m.dims[k])+1 if k in (a,b) else int(m.dims[k])) for k in range(d)]
            psi=rng.uniform(-1,1,shp)*amp
            # where A_a==0 (axis r=0 faces for a==0), psi must not vary along b
            da=np.diff(psi,axis=b)   # shape: nodes in a, cells in b  -> lives on a-faces
            db=np.diff(psi,axis=a)   # lives on b-faces
            Aa=np.broadcast_to(A[a],shapes[a]); Ab=np.broadcast_to(A[b],shapes[b])
            if (Aa==0).any():
                # make psi constant along b on those a-nodes
                idx=[slice(None)]*d; idx[a]=0
                first=[slice(None)]*d; first[a]=0; first[b]=slice(0,1)
                psi[tuple(idx)]=np.broadcast_to(psi[tuple(first)],psi[tuple(idx)].shape)
                da=np.diff(psi,axis=b); db=np.diff(psi,axis=a)
            comps[a]=comps[a]+np.where(Aa>0,da/np.where(Aa>0,Aa,1),0.0)
            comps[b]=comps[b]-db/Ab
    while len(comps)<3: comps.append(np.array([]))
    return pf.FaceVariable(m,*comps)
if __name__=="__main__":
    rng=np.random.default_rng(3)
    for name in GRIDS:
        w=0
        for t in range(20):
            m,_=rand_grid(rng,name,nmax=4)
            u=divfree_u(rng,name,m)
            dv=interior(m,pf.divergenceTerm(u)); sc=max(np.abs(c).max() if c.size else 0 for c in (u._xvalue,u._yvalue,u._zvalue))
            w=max(w,np.abs(dv).max()/(sc+1e-300))
        print(name,f"max |div u|/|u| = {w:.1e}")
