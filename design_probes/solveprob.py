from prob import *
def build_and_solve(P, nsteps=None):
    name=P['name']; m=make_grid(name,[np.array(f) for f in P['faces']])
    BC=apply_bc(pf.BoundaryConditions(m),P['bc'])
    c=pf.CellVariable(m,np.array(P['init'],float),BC)
    pad=lambda lst: list(lst)+[np.array([])]*(3-len(lst))
    D=pf.FaceVariable(m,*pad(P['D'])); u=pf.FaceVariable(m,*pad(P['u']))
    FL=pf.fluxLimiter(P.get('FL','SUPERBEE'))
    out=[]
    for s in range(nsteps or P.get('steps',2)):
        tl=[pf.transientTerm(c,P['dt'],pf.CellVariable(m,np.array(P['alpha']))), -pf.diffusionTerm(D),
            pf.linearSourceTerm(pf.CellVariable(m,np.array(P['beta']))), pf.constantSourceTerm(pf.CellVariable(m,np.array(P['gamma'])))]
        sch=P['scheme']
        if sch=='central': tl.append(pf.convectionTerm(u))
        elif sch in ('upwind','tvd'): tl.append(pf.convectionUpwindTerm(u))
        if sch=='tvd': tl.append(pf.convectionTVDupwindRHSTerm(u,c,FL))
        pf.solvePDE(c,tl); out.append(np.array(c._value))
    return out

def rand_lowdim_problem(rng, name, nmax=3, kinds=('D','N','R','P'), uniform=False):
    ax=AXES[name]; ns=[int(rng.integers(1,nmax+1)) for _ in ax]
    faces=[rand_faces(rng,k,n,uniform=uniform) for k,n in zip(ax,ns)]
    m=make_grid(name,faces); d=tuple(ns)
    fs=face_shapes(m)
    return dict(name=name,faces=faces,init=rng.uniform(-1,1,d),D=[rng.uniform(0.1,2,s) for s in fs],u=[rng.uniform(-1,1,s) for s in fs],
                beta=rng.uniform(0,1,d),gamma=rng.uniform(-1,1,d),alpha=rng.uniform(0.5,2,d),dt=10**rng.uniform(-2,1),
                bc=rand_bc(rng,m,name,kinds), scheme=['central','upwind','tvd','none'][rng.integers(4)], FL=['SUPERBEE','VanLeer','Koren','MinMod'][rng.integers(4)], steps=2)

def lift(P, newname, pos, newfaces, rng, periodic=False):
    """insert a redundant axis at position pos (0-based among axes of new grid)"""
    n=len(newfaces)-1
    def rep(a, axis_faces_plus=False):
        a=np.asarray(a); a2=np.expand_dims(a,pos); return np.repeat(a2,n,axis=pos)
    Q=dict(P); Q['name']=newname
    Q['faces']=list(P['faces'][:pos])+[np.array(newfaces)]+list(P['faces'][pos:])
    for k in ('init','beta','gamma','alpha'): Q[k]=rep(P[k])
    nd_old=len(P['faces'])
    Dn=[];un=[]
    old_axes=[i for i in range(nd_old+1) if i!=pos]
    newD=[None]*(nd_old+1); newu=[None]*(nd_old+1)
    for oi,ni in enumerate(old_axes):
        newD[ni]=rep(P['D'][oi]); newu[ni]=rep(P['u'][oi])
    # component along new axis: shape = cell dims with n+1 along pos; invariant along pos -> function of other coords only
    d_old=np.asarray(P['init']).shape
    base=rng.uniform(0.1,2,d_old); newD[pos]=np.repeat(np.expand_dims(base,pos),n+1,axis=pos)
    base=rng.uniform(-1,1,d_old); newu[pos]=np.repeat(np.expand_dims(base,pos),n+1,axis=pos)
    Q['D']=newD; Q['u']=newu
    # BCs: existing axes: arrays get the new axis inserted
    bc=[]
    for oi,ent in enumerate(P['bc']):
        if ent['periodic']: bc.append(dict(periodic=True)); continue
        e=dict(periodic=False)
        for side in ('lo','hi'):
            arrs=[]
            for a in ent[side]:
                a=np.asarray(a)
                if nd_old==1: a2=np.full((n,),a.ravel()[0])
                else:
                    # a has shape of cell dims without axis oi; new axis position within that reduced shape:
                    ni=old_axes[oi]; p = pos if pos<ni else pos-1
                    a2=np.repeat(np.expand_dims(a,p),n,axis=p)
                arrs.append(a2)
            e[side]=tuple(arrs)
        bc.append(e)
    newent=dict(periodic=True) if periodic else dict(periodic=False, lo=tuple(np.full([x for i,x in enumerate(Q['init'].shape) if i!=pos] or [1],v) for v in (1.0,0.0,0.0)), hi=tuple(np.full([x for i,x in enumerate(Q['init'].shape) if i!=pos] or [1],v) for v in (1.0,0.0,0.0)))
    bc.insert(pos,newent); Q['bc']=bc
    return Q
