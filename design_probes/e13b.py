from solveprob import *
import itertools
rng=np.random.default_rng(77)
def permute(P, perm):
    nd=len(perm); Q=dict(P)
    Q['faces']=[P['faces'][p] for p in perm]
    for k in ('init','beta','gamma','alpha'): Q[k]=np.transpose(P[k],perm)
    Q['D']=[np.transpose(P['D'][p],perm) for p in perm]; Q['u']=[np.transpose(P['u'][p],perm) for p in perm]
    bc=[]
    for newax,p in enumerate(perm):
        ent=P['bc'][p]
        if ent['periodic']: bc.append(dict(periodic=True)); continue
        # BC arrays have shape of dims without axis p, in original axis order; need order of remaining new axes
        rem_old=[a for a in range(nd) if a!=p]; rem_new=[perm[a] for a in range(nd) if a!=newax]
        tp=[rem_old.index(a) for a in rem_new]
        e=dict(periodic=False)
        for side in ('lo','hi'):
            e[side]=tuple(np.transpose(np.asarray(x).reshape([np.asarray(P['init']).shape[a] for a in rem_old]) ,tp) if nd>1 else x for x in ent[side])
        bc.append(e)
    Q['bc']=bc; return Q
def mirror(P, ax):
    Q=dict(P); f=np.asarray(P['faces'][ax]); Q['faces']=list(P['faces']); Q['faces'][ax]=(-f)[::-1]
    for k in ('init','beta','gamma','alpha'): Q[k]=np.flip(P[k],ax)
    Q['D']=[np.flip(x,ax) for x in P['D']]; Q['u']=[np.flip(x,ax)*(-1 if i==ax else 1) for i,x in enumerate(P['u'])]
    bc=[]
    nd=len(P['faces'])
    for a,ent in enumerate(P['bc']):
        if ent['periodic']: bc.append(dict(periodic=True)); continue
        if a==ax:
            lo=ent['hi']; hi=ent['lo']
            bc.append(dict(periodic=False,lo=(-lo[0],lo[1],lo[2]),hi=(-hi[0],hi[1],hi[2])))
        else:
            rem=[b for b in range(nd) if b!=a]
            if ax in rem:
                k=rem.index(ax)
                shp=[np.asarray(P['init']).shape[b] for b in rem]
                bc.append(dict(periodic=False,lo=tuple(np.flip(np.asarray(x).reshape(shp),k) for x in ent['lo']),hi=tuple(np.flip(np.asarray(x).reshape(shp),k) for x in ent['hi'])))
            else: bc.append(ent)
    Q['bc']=bc; return Q
for name in ('Grid1D','Grid2D','Grid3D'):
    nd=NDIM[name]; W={}
    for t in range(60):
        P=rand_lowdim_problem(rng,name)
        a=build_and_solve(P)
        for perm in itertools.permutations(range(nd)):
            if perm==tuple(range(nd)): continue
            b=build_and_solve(permute(P,perm))
            err=max(np.abs(np.transpose(x,perm)-y).max()/(np.abs(x).max()+1e-300) for x,y in zip(a,b))
            # compare interiors only (corners undefined)
            sl=tuple(slice(1,-1) for _ in range(nd))
            err=max(np.abs(np.transpose(x,perm)[sl]-y[sl]).max()/(np.abs(x).max()+1e-300) for x,y in zip(a,b))
            W['perm-'+P['scheme']]=max(W.get('perm-'+P['scheme'],0),err)
        for ax in range(nd):
            b=build_and_solve(mirror(P,ax)); sl=tuple(slice(1,-1) for _ in range(nd))
            err=max(np.abs(np.flip(x,ax)[sl]-y[sl]).max()/(np.abs(x).max()+1e-300) for x,y in zip(a,b))
            k='mirror-'+P['scheme']+('-per' if P['bc'][ax]['periodic'] else '')
            W[k]=max(W.get(k,0),err)
    print(name,{k:f"{v:.1e}" for k,v in sorted(W.items())})
