from divfree import *
import copy
rng=np.random.default_rng(81)
def snap_mesh(m):
    out={}
    for k in ('cellsize','cellcenters','facecenters'):
        o=getattr(m,k)
        for a in ('_x','_y','_z'): out[k+a]=np.array(getattr(o,a)).tobytes()
    out['dims']=np.array(m.dims).tobytes(); return out
def snap_face(F): return tuple(np.array(c).tobytes() for c in (F._xvalue,F._yvalue,F._zvalue))
def snap_cell(c): 
    b=c.BCs
    return (np.array(c._value).tobytes(),)+tuple(np.array(getattr(getattr(b,s),k)).tobytes() for s in ('left','right','bottom','top','back','front') for k in ('a','b','c'))+tuple(getattr(b,s).periodic for s in ('left','right','bottom','top','back','front'))
def arrays_of(obj):
    if isinstance(obj,np.ndarray): return [obj]
    if isinstance(obj,tuple): return sum([arrays_of(o) for o in obj],[])
    if isinstance(obj,pf.FaceVariable): return [obj._xvalue,obj._yvalue,obj._zvalue]
    if isinstance(obj,pf.CellVariable): return [obj._value]
    if hasattr(obj,'data') and hasattr(obj,'indices'): return [obj.data]
    return []
for name in GRIDS:
    issues=[]
    for t in range(5):
        m,_=rand_grid(rng,name,nmax=3); d=tuple(int(x) for x in m.dims)
        D=rand_face(rng,m,0.1,2); u=rand_face(rng,m,zeros=0.2); c=full_var(rng,m); c.BCs.left.fixedValue(0.3); c.apply_BCs()
        cpos=pf.CellVariable(m,rng.uniform(0.1,2,tuple(x+2 for x in d)))
        FL=pf.fluxLimiter('Koren')
        calls=dict(diff=lambda:pf.diffusionTerm(D),conv=lambda:pf.convectionTerm(u),up=lambda:pf.convectionUpwindTerm(u),up2=lambda:pf.convectionUpwindTerm(D,u),
                   tvd=lambda:pf.convectionTVDupwindRHSTerm(u,c,FL),lin=lambda:pf.linearSourceTerm(c),const=lambda:pf.constantSourceTerm(c),
                   trans=lambda:pf.transientTerm(c,0.1,cpos),grad=lambda:pf.gradientTerm(c),div=lambda:pf.divergenceTerm(u),gfix=lambda:pf.gradientTermFixedBC(c),
                   lm=lambda:pf.linearMean(c),am=lambda:pf.arithmeticMean(c),gm=lambda:pf.geometricMean(cpos),hm=lambda:pf.harmonicMean(cpos),um=lambda:pf.upwindMean(c,u),
                   bct=lambda:pf.boundaryConditionsTerm(c.BCs),cl=lambda:pf.cellLocations(m),fl=lambda:pf.faceLocations(m),pp=lambda:c.plotprofile(),
                   di=lambda:c.domainIntegral(), cv=lambda: m.cellvolume)
        for k,f in calls.items():
            s0=(snap_mesh(m),snap_face(D),snap_face(u),snap_cell(c),snap_cell(cpos))
            r1=f(); r2=f()
            s1=(snap_mesh(m),snap_face(D),snap_face(u),snap_cell(c),snap_cell(cpos))
            if s0!=s1: issues.append(k+':mutates')
            a1=arrays_of(r1); a2=arrays_of(r2)
            if len(a1)!=len(a2) or any(x.tobytes()!=y.tobytes() for x,y in zip(a1,a2)): issues.append(k+':nondet')
            # aliasing with mesh / inputs
            ins=[getattr(getattr(m,kk),aa) for kk in ('cellsize','cellcenters','facecenters') for aa in ('_x','_y','_z')]+arrays_of(D)+arrays_of(u)+[c._value,cpos._value]
            for x in a1:
                for y in ins:
                    if x.size and y.size and np.shares_memory(x,y): issues.append(k+':alias')
    print(name,sorted(set(issues)))
