from common import *
import traceback
def tryit(label, f):
    try:
        r = f(); print(f"{label}: OK -> {type(r).__name__}")
    except Exception as e:
        print(f"{label}: {type(e).__name__}: {str(e)[:70]}")
# arity
for cls,valid in [(pf.Grid1D,(1,2)),(pf.Grid2D,(2,4)),(pf.Grid3D,(3,6)),(pf.SphericalGrid3D,(3,6)),(pf.PolarGrid2D,(2,4)),(pf.CylindricalGrid1D,(1,2))]:
    for n in range(0,8):
        args = [3]*n
        if n in valid and n<=3: args=[np.array([0.,1,2])]*n
        if n in valid and n>3: args=[2]*(n//2)+[1.0]*(n//2)
        tryit(f"{cls.__name__} arity {n}", lambda: cls(*args))
