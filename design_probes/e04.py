from divfree import *
rng=np.random.default_rng(71)
for name in GRIDS:
    bad=[]
    for t in range(10):
        m,_=rand_grid(rng,name,nmax=3); d=tuple(int(x) for x in m.dims)
        full_idx=np.arange(np.prod([x+2 for x in d])).reshape([x+2 for x in d])
        inter=set(full_idx[tuple(slice(1,-1) for _ in d)].ravel().tolist())
        ghost=np.array(sorted(set(full_idx.ravel().tolist())-inter))
        D=rand_face(rng,m,0.1,2); u=rand_face(rng,m); c=full_var(rng,m)
        FL=pf.fluxLimiter('Koren')
        Mt,Rt=pf.transientTerm(c,0.1,rng.uniform(0.5,2,d))
        items=dict(diff=pf.diffusionTerm(D),conv=pf.convectionTerm(u),up=pf.convectionUpwindTerm(u),lin=pf.linearSourceTerm(c),Mt=Mt,
                   const=pf.constantSourceTerm(c),Rt=Rt,tvd=pf.convectionTVDupwindRHSTerm(u,c,FL),div=pf.divergenceTerm(u))
        for k,v in items.items():
            if v.ndim==2:
                rows=np.unique(v.nonzero()[0]); 
                if np.intersect1d(rows,ghost).size: bad.append(k)
                if v.shape!=(full_idx.size,full_idx.size): bad.append(k+'-shape')
            else:
                if np.abs(v[ghost]).max()>0: bad.append(k)
                if v.shape!=(full_idx.size,): bad.append(k+'-shape')
        # BC term rows only ghost
        Mb,Rb=pf.boundaryConditionsTerm(pf.BoundaryConditions(m))
        rows=np.unique(Mb.nonzero()[0])
        if len(set(rows.tolist())&inter): bad.append('bc-in-interior')
        # in place & returns same & external solver
        phi=pf.CellVariable(m,rng.uniform(0,1,d)); phi.BCs.left.fixedValue(1.0)
        rec={}
        from scipy.sparse.linalg import spsolve
        def ext(M,R): rec['M']=M.copy(); rec['R']=R.copy(); return spsolve(M,R)
        terms=[(Mt,Rt),-pf.diffusionTerm(D),2.0*pf.constantSourceTerm(c)]
        r=pf.solvePDE(phi,terms,externalsolver=ext)
        if r is not phi: bad.append('not-same-object')
        Mb,Rb=pf.boundaryConditionsTerm(phi.BCs)
        Mtot=Mb+Mt-pf.diffusionTerm(D); Rtot=Rb+Rt+2.0*pf.constantSourceTerm(c)
        if abs(rec['M']-Mtot).max()>1e-14 or np.abs(rec['R']-Rtot).max()>1e-14: bad.append('ext-system-differs')
        s=pf.solveMatrixPDE(m,Mtot,Rtot)
        if np.abs(s.value-phi.value).max()>1e-12: bad.append('matrixPDE-differs')
    print(name,sorted(set(bad)))
try:
    -pf.transientTerm(c,0.1)
except Exception as e: print("neg tuple:",repr(e))
