import numpy as np, warnings
import pyfvtool as pf
warnings.filterwarnings("ignore")
np.seterr(all="ignore")

GRIDS = ["Grid1D","CylindricalGrid1D","SphericalGrid1D","Grid2D","CylindricalGrid2D","PolarGrid2D","Grid3D","CylindricalGrid3D","SphericalGrid3D"]
NDIM = dict(Grid1D=1,CylindricalGrid1D=1,SphericalGrid1D=1,Grid2D=2,CylindricalGrid2D=2,PolarGrid2D=2,Grid3D=3,CylindricalGrid3D=3,SphericalGrid3D=3)
# axis kinds: 'x' linear, 'r' radial (>=0), 'th_c' cyl angle [0,2pi], 'th_s' polar angle (0,pi), 'ph' azimuth
AXES = dict(Grid1D=['x'],CylindricalGrid1D=['r'],SphericalGrid1D=['r'],Grid2D=['x','x'],CylindricalGrid2D=['r','x'],
            PolarGrid2D=['r','th_c'],Grid3D=['x','x','x'],CylindricalGrid3D=['r','th_c','x'],SphericalGrid3D=['r','th_s','ph'])

def rand_faces(rng, kind, n, uniform=False, r0=None):
    if uniform:
        w = np.ones(n)
    else:
        w = rng.uniform(0.3, 1.7, n)
    c = np.concatenate([[0], np.cumsum(w)])/w.sum()
    if kind=='x':
        a = rng.uniform(-2,2); L = rng.uniform(0.5,3)
        return a + L*c
    if kind=='r':
        a = (0.0 if rng.random()<0.4 else rng.uniform(0.1,2)) if r0 is None else r0
        L = rng.uniform(0.5,3)
        return a + L*c
    if kind=='th_c' or kind=='ph':
        a = rng.uniform(0,1.0); L = rng.uniform(0.5, 2*np.pi-a)
        return a + L*c
    if kind=='th_s':
        a = rng.uniform(0.1,1.0); b = rng.uniform(a+0.5, np.pi-0.1)
        return a + (b-a)*c

def make_grid(name, faces):
    return getattr(pf, name)(*faces)

def rand_grid(rng, name, nmax=4, uniform=False, nmin=1):
    ax = AXES[name]
    ns = [int(rng.integers(nmin, nmax+1)) for _ in ax]
    faces = [rand_faces(rng, k, n, uniform) for k,n in zip(ax,ns)]
    return make_grid(name, faces), faces

def face_shapes(m):
    d = tuple(int(x) for x in m.dims)
    if len(d)==1: return [(d[0]+1,)]
    if len(d)==2: return [(d[0]+1,d[1]),(d[0],d[1]+1)]
    return [(d[0]+1,d[1],d[2]),(d[0],d[1]+1,d[2]),(d[0],d[1],d[2]+1)]

def rand_face(rng, m, lo=-1, hi=1, zeros=0.0):
    shp = face_shapes(m)
    comps = []
    for s in shp:
        a = rng.uniform(lo,hi,s)
        if zeros>0: a[rng.random(s)<zeros]=0.0
        comps.append(a)
    while len(comps)<3: comps.append(np.array([]))
    return pf.FaceVariable(m, *comps)

def interior(m, vec):
    d = tuple(int(x) for x in m.dims)
    full = np.asarray(vec).reshape(tuple(x+2 for x in d))
    return full[tuple(slice(1,-1) for _ in d)]

def full_var(rng, m):
    """CellVariable with arbitrary full (ghost incl.) values"""
    d = tuple(int(x)+2 for x in m.dims)
    return pf.CellVariable(m, rng.uniform(-1,1,d))
