from common import *
rng = np.random.default_rng(5)
def boundary_mask_faces(m):
    out=[]
    for ax,s in enumerate(face_shapes(m)):
        mk = np.zeros(s,bool)
        idx=[slice(None)]*len(s); idx[ax]=0; mk[tuple(idx)]=True
        idx[ax]=-1; mk[tuple(idx)]=True
        out.append(mk)
    return out
name="SphericalGrid3D"; res={}
for t in range(20):
    m,_ = rand_grid(rng, name, nmax=4, nmin=2)
    rp = m.cellcenters.r[:,None,None]; th = m.cellcenters.theta[None,:,None]
    V = rp**2*m.cellsize.r[1:-1,None,None]*np.sin(th)*m.cellsize.theta[None,1:-1,None]*m.cellsize.phi[None,None,1:-1]
    phi = full_var(rng, m); x=phi._value.ravel()
    D = rand_face(rng, m, 0.1, 2); u = rand_face(rng, m, -1, 1)
    for F in (D,u):
        for comp,mk in zip([F._xvalue,F._yvalue,F._zvalue], boundary_mask_faces(m)):
            comp[mk]=0.0
    FL = pf.fluxLimiter('SUPERBEE')
    terms = dict(diff=pf.diffusionTerm(D)@x, conv=pf.convectionTerm(u)@x, up=pf.convectionUpwindTerm(u)@x,
                 tvd=pf.convectionTVDupwindRHSTerm(u,phi,FL), div=pf.divergenceTerm(u))
    for k,v in terms.items():
        iv = interior(m, v)
        tot = (V*iv).sum(); sc = (np.abs(V*iv)).sum()+1e-300
        res[k]=max(res.get(k,0), abs(tot)/sc)
print(name, {k:f"{v:.1e}" for k,v in res.items()})
