from solveprob import *
rng=np.random.default_rng(31)
PAIRS=[('Grid1D','Grid2D',1,'x'),('Grid1D','Grid2D',0,'x'),('Grid2D','Grid3D',0,'x'),('Grid2D','Grid3D',1,'x'),('Grid2D','Grid3D',2,'x'),
       ('CylindricalGrid1D','CylindricalGrid2D',1,'x'),('CylindricalGrid1D','PolarGrid2D',1,'th_c'),
       ('CylindricalGrid2D','CylindricalGrid3D',1,'th_c'),('PolarGrid2D','CylindricalGrid3D',2,'x')]
for lo,hi,pos,kind in PAIRS:
    worst={}; 
    for t in range(40):
        P=rand_lowdim_problem(rng,lo)
        n=int(rng.integers(1,4)); nf=rand_faces(rng,kind,n)
        per = (rng.random()<0.4)
        Q=lift(P,hi,pos,nf,rng,periodic=per)
        try:
            a=build_and_solve(P); b=build_and_solve(Q)
        except Exception as e:
            worst['exc']=repr(e)[:80]; continue
        for sa,sb in zip(a,b):
            # interior compare: take slices along pos
            nd=sb.ndim
            inter_b=sb[tuple(slice(1,-1) for _ in range(nd))]
            inter_a=sa[tuple(slice(1,-1) for _ in range(sa.ndim))]
            ref=np.repeat(np.expand_dims(inter_a,pos),inter_b.shape[pos],axis=pos)
            err=np.abs(inter_b-ref).max()/(np.abs(ref).max()+1e-300)
            key=P['scheme']+('-per' if per else '')
            worst[key]=max(worst.get(key,0),err)
    print(lo,'->',hi,pos,{k:(v if isinstance(v,str) else f"{v:.1e}") for k,v in worst.items()})
