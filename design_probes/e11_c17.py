from prob import *
rng=np.random.default_rng(21)
def scale_face(F, s): return pf.FaceVariable(F.domain, F._xvalue*s, F._yvalue*s, F._zvalue*s)
for name in GRIDS:
    worst={}
    for t in range(25):
        ax=AXES[name]
        ns=[int(rng.integers(1,4)) for _ in ax]
        faces=[rand_faces(rng,k,n) for k,n in zip(ax,ns)]
        L,T,K = [10.0**rng.uniform(-6,6) for _ in range(3)]
        faces2=[f*L if k in ('x','r') else f.copy() for f,k in zip(faces,ax)]
        m1=make_grid(name,faces); m2=make_grid(name,faces2)
        spec=rand_bc(rng,m1,name)
        spec2=[dict(periodic=True) if e['periodic'] else dict(periodic=False, lo=(e['lo'][0]*L,e['lo'][1],e['lo'][2]*K), hi=(e['hi'][0]*L,e['hi'][1],e['hi'][2]*K)) for e in spec]
        d=tuple(int(x) for x in m1.dims)
        init=np.round(rng.uniform(-2,2,d)*4)/4
        D1=rand_face(rng,m1,0.1,2); u1=rand_face(rng,m1,-1,1)
        beta=rng.uniform(0,1,d); gamma=rng.uniform(-1,1,d); alpha=rng.uniform(0.5,2,d); dt=10**rng.uniform(-2,1)
        D2=pf.FaceVariable(m2,D1._xvalue*L*L/T,D1._yvalue*L*L/T,D1._zvalue*L*L/T)
        u2=pf.FaceVariable(m2,u1._xvalue*L/T,u1._yvalue*L/T,u1._zvalue*L/T)
        for scheme in ('central','upwind','tvd'):
            c1=pf.CellVariable(m1,init.copy(),apply_bc(pf.BoundaryConditions(m1),spec))
            c2=pf.CellVariable(m2,init*K,apply_bc(pf.BoundaryConditions(m2),spec2))
            FL=pf.fluxLimiter(['SUPERBEE','VanLeer','Koren','CHARM'][rng.integers(4)])
            ok=True
            for step in range(2):
                def terms(c,m,D,u,b,g,a,dtt):
                    tl=[pf.transientTerm(c,dtt,pf.CellVariable(m,a)), -pf.diffusionTerm(D), pf.linearSourceTerm(pf.CellVariable(m,b)), pf.constantSourceTerm(pf.CellVariable(m,g))]
                    if scheme=='central': tl.append(pf.convectionTerm(u))
                    else: tl.append(pf.convectionUpwindTerm(u))
                    if scheme=='tvd': tl.append(pf.convectionTVDupwindRHSTerm(u,c,FL))
                    return tl
                try:
                    pf.solvePDE(c1,terms(c1,m1,D1,u1,beta,gamma,alpha,dt))
                    pf.solvePDE(c2,terms(c2,m2,D2,u2,beta/T,gamma*K/T,alpha,dt*T))
                except Exception as e:
                    ok=False; worst[scheme]=repr(e)[:50]; break
                err=np.abs(c2._value/K-c1._value).max()/(np.abs(c1._value).max()+1e-300)
                if not isinstance(worst.get(scheme,0),str): worst[scheme]=max(worst.get(scheme,0),err)
    print(name,{k:(v if isinstance(v,str) else f"{v:.1e}") for k,v in worst.items()})
