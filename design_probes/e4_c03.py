from common import *
import itertools
rng = np.random.default_rng(7)
SIDES = [('left','right'),('bottom','top'),('back','front')]
def metric(m, name, ax):
    """scale factor h multiplying d(coord) for the normal derivative on boundary faces of axis ax, broadcast to face shape of BC arrays"""
    d = tuple(int(x) for x in m.dims)
    kinds = AXES[name]
    k = kinds[ax]
    if k in ('x','r'): return 1.0
    rp = m.cellcenters._x
    if k=='th_c' or k=='th_s':
        # BC arrays for bottom/top: shape (Nx,) in 2D, (Nx,Nz) in 3D
        return rp if len(d)==2 else rp[:,None]
    if k=='ph':
        th = m.cellcenters._y
        return rp[:,None]*np.sin(th)[None,:]
def ghost_and_inner(full, ax, side):
    idx_g=[slice(1,-1)]*full.ndim; idx_i=[slice(1,-1)]*full.ndim
    if side==0: idx_g[ax]=0; idx_i[ax]=1
    else: idx_g[ax]=-1; idx_i[ax]=-2
    return full[tuple(idx_g)], full[tuple(idx_i)]
def check(name, m, phi, tag):
    full = np.asarray(phi._value); nd=full.ndim; worst=0
    BC = phi.BCs
    for ax in range(nd):
        lo,hi = SIDES[ax]
        per = getattr(BC,lo).periodic or getattr(BC,hi).periodic
        dxs = [m.cellsize._x, m.cellsize._y, m.cellsize._z][ax]
        for side,sn in enumerate((lo,hi)):
            g,i = ghost_and_inner(full, ax, side)
            if per:
                # wrap
                g2,i2 = ghost_and_inner(full, ax, 1-side)
                err = np.abs(g - i2).max()
            else:
                f = getattr(BC,sn)
                a,b,c = [np.asarray(z).reshape(g.shape) if np.asarray(z).size==g.size else np.asarray(z) for z in (f.a,f.b,f.c)]
                h = metric(m,name,ax); dx = dxs[0] if side==0 else dxs[-1]
                dn = (i-g)/(h*dx) if side==0 else (g-i)/(h*dx)
                res = a*dn + b*0.5*(g+i) - c
                err = np.abs(res).max()/(np.abs(a*dn).max()+np.abs(b*0.5*(g+i)).max()+np.abs(c).max()+1e-300)
            worst=max(worst,err)
    # matrix consistency
    Mbc,Rbc = pf.boundaryConditionsTerm(BC)
    r = Mbc@full.ravel()-Rbc
    rows = np.unique(Mbc.nonzero()[0])
    # exclude corners/edges
    sc = np.abs(Mbc).dot(np.abs(full.ravel()))+np.abs(Rbc)+1e-300
    full_idx = np.arange(full.size).reshape(full.shape)
    mask = np.zeros(full.size,bool)
    for ax in range(nd):
        for side in (0,1):
            g,_ = ghost_and_inner(full_idx, ax, side); mask[g.ravel()]=True
    merr = (np.abs(r)/sc)[mask].max()
    return worst, merr
def main():
  for name in GRIDS:
    nd = NDIM[name]; W=0; Mw=0; n=0; fails=[]
    for t in range(60):
        m,_ = rand_grid(rng, name, nmax=3)
        BC = pf.BoundaryConditions(m)
        perflags=[]
        for ax in range(nd):
            lo,hi=SIDES[ax]
            kind = AXES[name][ax]
            per = (kind!='r') and rng.random()<0.3
            perflags.append(per)
            if per:
                if rng.random()<0.5: getattr(BC,lo).periodic=True
                else: getattr(BC,hi).periodic=True
            for sn in (lo,hi):
                f=getattr(BC,sn); shp=f.a.shape
                typ = rng.integers(3)
                if typ==0: f.a[:]=0; f.b[:]=rng.uniform(0.5,2,shp)*rng.choice([-1,1]); f.c[:]=rng.uniform(-1,1,f.c.shape)
                elif typ==1: f.a[:]=rng.uniform(0.5,2,shp)*rng.choice([-1,1]); f.b[:]=0; f.c[:]=rng.uniform(-1,1,f.c.shape)
                else:
                    sgn = 1 if sn==hi else -1   # keep a/dx and b/2 same sign structure to avoid singular
                    f.a[:]=sgn*rng.uniform(0.5,2,shp); f.b[:]=rng.uniform(0.5,2,shp); f.c[:]=rng.uniform(-1,1,f.c.shape)
        phi = pf.CellVariable(m, rng.uniform(-1,1,tuple(int(x) for x in m.dims)), BC)
        w,me = check(name,m,phi,'ctor'); W=max(W,w); Mw=max(Mw,me)
        if w>1e-9 or me>1e-9: fails.append((perflags, [f"{x:.2f}" for x in (m.cellsize._x[0],m.cellsize._x[-1])], f"{w:.1e}", f"{me:.1e}"))
    print(name, f"ghost {W:.1e} matrix {Mw:.1e}", fails[:3])
