#!/bin/bash
# run every quick (or $1) check at the given seeds; print one line per check
TIER=${1:-quick}; shift
SEEDS=${@:-1}
cd "$(dirname "$0")/.."
for s in $SEEDS; do
 for i in 01 02 03 04 05 06 07 08 09 10 11 12 13 14 15 16 17; do
  t0=$(date +%s)
  out=$(VERIF_SEED=$s ./check C$i --tier $TIER 2>&1); rc=$?
  t1=$(date +%s)
  echo "seed=$s C$i rc=$rc $((t1-t0))s $(echo "$out" | grep -c VIOLATION) viol | $(echo "$out" | grep -E "^C$i" | cut -c1-150)"
  if [ $rc -ne 0 ]; then echo "$out" | grep -E "bucket|VIOLATION|HARNESS|Error" | head -8; fi
 done
done
