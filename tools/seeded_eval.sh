#!/bin/bash
# usage: tools/seeded_eval.sh <seed dir containing patch.diff, demo.py> <label> [checks...]
# Evaluates one seeded change in a scratch copy of /repo (never touches /repo): demo on clean / changed tree,
# then the given checks (default: all) in quick tier with VERIF_SRC pointing at the changed copy.
SD=$1; LABEL=$2; shift 2
CHECKS=${@:-C01 C02 C03 C04 C05 C06 C07 C08 C09 C10 C11 C12 C13 C14 C15 C16 C17}
HERE="$(cd "$(dirname "$0")/.." && pwd)"
W=$(mktemp -d /tmp/seedeval_${LABEL}_XXXX)
mkdir -p $W/clean $W/mut
cp -r /repo/src $W/clean/src; cp -r /repo/src $W/mut/src
( cd $W/mut && patch -p1 -s < $SD/patch.diff ) || { echo "PATCH FAILED"; rm -rf $W; exit 2; }
PYTHONPATH=$W/clean/src /venv/bin/python $SD/demo.py > $W/demo_clean.txt 2>&1; rc0=$?
PYTHONPATH=$W/mut/src /venv/bin/python $SD/demo.py > $W/demo_mut.txt 2>&1; rc1=$?
echo "[$LABEL] demo: clean rc=$rc0, changed rc=$rc1"
for c in $CHECKS; do
  t0=$(date +%s)
  out=$(VERIF_SRC=$W/mut/src VERIF_OUT=$W/out VERIF_NPROC=${VERIF_NPROC:-8} $HERE/check $c --tier quick --no-shrink 2>&1); rc=$?
  t1=$(date +%s)
  b=$(echo "$out" | grep -E "^\s+bucket" | head -3 | cut -c1-160 | tr '\n' ';')
  echo "[$LABEL] $c rc=$rc $((t1-t0))s $b"
done
rm -rf $W
