#!/usr/bin/env python3
"""Sensitivity of the checks: a corpus of small realistic source mutations (DESIGN 2.6).

usage: tools/mutation_check.py [--tests] [--only ID,ID] [--checks all|expected] [--jobs N]

For each mutant: copy /repo/src to a scratch directory OUTSIDE /repo and /verif, apply the textual
replacement, optionally run the repository's own test-suite on it (a mutant of the kind asked for
must keep it green), run the quick checks expected to kill it (or all) with VERIF_SRC pointing at the
scratch copy, record kill / survive and the killing buckets, delete the scratch copy.
Writes MUTATION_REPORT.md / mutation_report.json in /verif.
"""
import argparse
import json
import os
import re
import shutil
import subprocess
import sys
import tempfile
import time
from concurrent.futures import ThreadPoolExecutor

HERE = os.path.dirname(os.path.dirname(os.path.abspath(__file__)))
SRC = "/repo/src"
ALL = [f"C{i:02d}" for i in range(1, 18)]

# (id, file, old, new, occurrence (0-based), expected killers, description)
M = []


def mut(mid, f, old, new, n=0, kill=(), desc=""):
    M.append(dict(id=mid, file=f, old=old, new=new, n=n, kill=list(kill), desc=desc))


A = "pyfvtool/advection.py"
Dd = "pyfvtool/diffusion.py"
B = "pyfvtool/boundary.py"
Cc = "pyfvtool/calculus.py"
AV = "pyfvtool/averaging.py"
CE = "pyfvtool/cell.py"
FA = "pyfvtool/face.py"
ME = "pyfvtool/mesh.py"
PD = "pyfvtool/pdesolver.py"
SO = "pyfvtool/source.py"
UT = "pyfvtool/utilities.py"

# ---- advection
mut("adv-1d-west-width", A, "    uw = u._xvalue[0:Nx]/(DXp+DXw)\n", "    uw = u._xvalue[0:Nx]/(DXp+DXe)\n", 0, ["C05", "C01", "C06"], "convectionTerm1D: west weight uses east width")
mut("adv-3d-north-width", A, "    vn = u._yvalue[:, 1:Ny+1, :]/(DYp+DYn)\n", "    vn = u._yvalue[:, 1:Ny+1, :]/(DYp+DYs)\n", 0, ["C05", "C01", "C06", "C08"], "convectionTerm3D: north weight uses south width")
mut("adv-sph1d-apx", A, "    APx = (ue*DXe-uw*DXw)/DXp\n", "    APx = (ue*DXe+uw*DXw)/DXp\n", 1, ["C05", "C06", "C01", "C02"], "convectionTermSpherical1D: sign in diagonal")
mut("upw-2d-bottom-corr", A, "    APy[:, 0] = APy[:, 0]-vs_max[:, 0]/(2.0*DYp[0])\n", "    APy[:, 0] = APy[:, 0]-vs_max[:, 0]/(2.0*DYp[-1])\n", 0, ["C05", "C06", "C01"], "convectionUpwindTerm2D: bottom boundary correction uses last cell width")
mut("upw-minmax-no-copy", A, "        ux_min = np.copy(u._xvalue)\n        ux_max = np.copy(u._xvalue)\n        ux_min[u_upwind._xvalue > 0.0] = 0.0",
    "        ux_min = u._xvalue\n        ux_max = np.copy(u._xvalue)\n        ux_min[u_upwind._xvalue > 0.0] = 0.0", 0, ["C15", "C05"], "_upwind_min_max 1D: masked write on the caller's array")
mut("upw-minmax-ge", A, "        uy_max[u_upwind._yvalue < 0.0] = 0.0\n        uz_min", "        uy_max[u_upwind._yvalue <= 0.0] = 0.0\n        uz_min", 0, ["C05"], "_upwind_min_max 3D: <= instead of < (zero velocity faces)")
mut("tvd-1d-psi-half", A, "    psi_m[0:Nx] = 0.5*FL(rm)*(phi._value[0:Nx]-phi._value[1:Nx+1])\n", "    psi_m[0:Nx] = FL(rm)*(phi._value[0:Nx]-phi._value[1:Nx+1])\n", 0, ["C05"], "convectionTvdRHS1D: factor 1/2 dropped for negative velocities")
mut("tvd-fsign-guard", A, "    return (np.abs(phi_in) >= eps1)*phi_in+eps1*(phi_in == 0.0)+eps1*(np.abs(phi_in) < eps1)*np.sign(phi_in)\n",
    "    return phi_in\n", 0, ["C13", "C06"], "_fsign guard removed: 0/0 for equal neighbours")
mut("tvd-cyl2d-rf", A, "    div_x = -(1.0/(rp*DXp))*(re*(ue_max*psiX_p[1:Nx+1, :]+ue_min*psiX_m[1:Nx+1, :]) -", "    div_x = -(1.0/(rp*DXp))*(rw*(ue_max*psiX_p[1:Nx+1, :]+ue_min*psiX_m[1:Nx+1, :]) -", 0, ["C05", "C01"], "convectionTvdRHSCylindrical2D: east flux weighted with west radius")
mut("upw-dispatch-drop", A, "        return convectionUpwindTerm3D(u, *args)[0]\n", "        return convectionUpwindTerm3D(u)[0]\n", 0, ["C05", "C17"], "dispatcher drops u_upwind on Grid3D again")
mut("conv-polar-vn-r", A, "    vn = u._yvalue[:, 1:Ny+1]/(rp*(DYp+DYn))\n", "    vn = u._yvalue[:, 1:Ny+1]/((DYp+DYn))\n", 0, ["C05", "C01", "C02", "C17", "C08"], "convectionTermPolar2D: 1/r dropped on theta faces")

# ---- diffusion
mut("diff-1d-dx-shift", Dd, "    Dw = Dx[0:Nx]/(dx[0:Nx]*DX[1:Nx+1])\n", "    Dw = Dx[0:Nx]/(dx[1:Nx+1]*DX[1:Nx+1])\n", 0, ["C05", "C01", "C02"], "diffusionTerm1D: west face uses east centre distance")
mut("diff-cyl3d-rp2", Dd, "    Dn = D._yvalue[:, 1:Ny+1, :]/(rp*rp*dy[1:Ny+1][np.newaxis,", "    Dn = D._yvalue[:, 1:Ny+1, :]/(rp*dy[1:Ny+1][np.newaxis,", 0, ["C05", "C01", "C02", "C17", "C08"], "diffusionTermCylindrical3D: one 1/r missing on north faces")
mut("diff-sph3d-sin", Dd, "    Ds = D._yvalue[:, 0:Ny, :]*np.sin(thetaf[:,0:Ny,:])/(rp*rp*np.sin(thetap)*dy[:,0:Ny,:]*DY[:,1:Ny+1,:])\n",
    "    Ds = D._yvalue[:, 0:Ny, :]*np.sin(thetaf[:,1:Ny+1,:])/(rp*rp*np.sin(thetap)*dy[:,0:Ny,:]*DY[:,1:Ny+1,:])\n", 0, ["C05", "C01", "C02"], "diffusionTermSpherical3D: south face uses north sin(theta)")
mut("diff-2d-apy", Dd, "    APy = -(AN+AS)\n", "    APy = -(AN+AN)\n", 0, ["C05", "C06", "C01"], "diffusionTerm2D: diagonal built from AN twice")
mut("diff-3d-jjz", Dd, "    jjz = np.hstack([G[1:Nx+1, 1:Ny+1, 0:Nz].ravel(),\n                    G[1:Nx+1, 1:Ny+1, 1:Nz+1].ravel(),\n                     G[1:Nx+1, 1:Ny+1, 2:Nz+2].ravel()])",
    "    jjz = np.hstack([G[1:Nx+1, 1:Ny+1, 2:Nz+2].ravel(),\n                    G[1:Nx+1, 1:Ny+1, 1:Nz+1].ravel(),\n                     G[1:Nx+1, 1:Ny+1, 0:Nz].ravel()])", 0, ["C05", "C01", "C08"], "diffusionTerm3D: back/front columns swapped")

# ---- boundary
mut("bc-2d-top-dy", B, "        phiBC[i,j]= (BC.top.c-phi[:,-1]*(-BC.top.a/dy_end+BC.top.b/2))/(BC.top.a/dy_end+BC.top.b/2)\n",
    "        phiBC[i,j]= (BC.top.c-phi[:,-1]*(-BC.top.a/dy_1+BC.top.b/2))/(BC.top.a/dy_1+BC.top.b/2)\n", 0, ["C03", "C04", "C09"], "ghost values 2D top use first cell size")
mut("bc-1d-left-sign", B, "        s[q] = -(BC.left.b.item()/2 - BC.left.a.item()/dx_1)\n", "        s[q] = -(BC.left.b.item()/2 + BC.left.a.item()/dx_1)\n", 0, ["C03", "C02", "C04"], "boundaryConditionsTerm1D: left ghost coefficient sign")
mut("bc-polar-rp", B, "        phiBC[i,j]= (BC.top.c-phi[:,-1]*(-BC.top.a/(dy_end*rp)+BC.top.b/2))/(BC.top.a/(dy_end*rp)+BC.top.b/2)\n",
    "        phiBC[i,j]= (BC.top.c-phi[:,-1]*(-BC.top.a/(dy_end)+BC.top.b/2))/(BC.top.a/(dy_end)+BC.top.b/2)\n", 0, ["C03", "C04", "C17"], "Polar2D ghost values: 1/r dropped on theta boundary")
mut("bc-periodic-flag-3d", B, "    if (not BC.left.periodic) and (not BC.right.periodic):\n        # Right boundary\n        i = Nx+1\n        j = j_ind\n        k = k_ind\n        phiBC[i,j,k]= (BC.right.c-phi[-1,:,:]*(-BC.right.a/dx_end+BC.right.b/2))/(BC.right.a/dx_end+BC.right.b/2)",
    "    if (not BC.left.periodic):\n        # Right boundary\n        i = Nx+1\n        j = j_ind\n        k = k_ind\n        phiBC[i,j,k]= (BC.right.c-phi[-1,:,:]*(-BC.right.a/dx_end+BC.right.b/2))/(BC.right.a/dx_end+BC.right.b/2)", 0, ["C03", "C09", "C16"], "3D ghost values ignore the right periodic flag")
mut("bc-fixedgradient-scale", B, "        self.c = scale_coeffs * gradientvalue\n", "        self.c = gradientvalue\n", 0, ["C09"], "fixedGradient forgets to scale c")
mut("bc-newton-reverse", B, "        self.c = h_eff*T_ext\n", "        self.c = h*T_ext\n", 0, ["C09"], "newtonCooling: c uses h instead of h_eff")
mut("bc-periodic-setter-dirty", B, "    def periodic(self, val):\n        self.modified = True\n", "    def periodic(self, val):\n", 0, ["C09"], "periodic setter does not raise the dirty bit")
mut("bc-modified-front", B, "        return (self.left.modified or self.right.modified\\\n                or self.top.modified or self.bottom.modified\\\n                or self.front.modified or self.back.modified)",
    "        return (self.left.modified or self.right.modified\\\n                or self.top.modified or self.bottom.modified\\\n                or self.back.modified)", 0, ["C09"], "BCs.modified ignores the front face")
mut("bc-radial-periodic-2d", B, "        if (type(BC.domain) is CylindricalGrid2D):\n            raise ValueError(\"Radial periodic boundary conditions are not physically meaningful.\")\n",
    "        if (type(BC.domain) is CylindricalGrid2D) and BC.right.periodic and BC.left.periodic:\n            raise ValueError(\"Radial periodic boundary conditions are not physically meaningful.\")\n", 0, ["C16"], "radial periodic rejected only if both flags set")

# ---- calculus
mut("grad-polar-r", Cc, "                     (phi._value[1:-1, 1:]-phi._value[1:-1, 0:-1])/(dtheta[np.newaxis,:]*rp[:,np.newaxis]),\n",
    "                     (phi._value[1:-1, 1:]-phi._value[1:-1, 0:-1])/(dtheta[np.newaxis,:]),\n", 0, ["C05"], "gradientTerm Polar2D: 1/r dropped")
mut("div-cyl2d-rw", Cc, "    div_x = (re*Fe - rw*Fw)/(dr*rp)\n    div_y = (Fn - Fs)/dz\n", "    div_x = (re*Fe - re*Fw)/(dr*rp)\n    div_y = (Fn - Fs)/dz\n", 0, ["C05", "C01", "C06"], "divergenceTermCylindrical2D: west flux weighted with east radius")
mut("div-sph3d-sin", Cc, "    div_z = (F._zvalue[:,:,1:Nz+1] - F._zvalue[:,:,0:Nz])/(dz*rp*np.sin(thetap))\n", "    div_z = (F._zvalue[:,:,1:Nz+1] - F._zvalue[:,:,0:Nz])/(dz*rp)\n", 0, ["C05", "C01"], "divergenceTermSpherical3D: 1/sin(theta) dropped")
mut("gradfixed-alias", Cc, "    faceGrad = gradientTerm(phi)\n", "    faceGrad = gradientTerm(phi)\n    phi._value[0] = phi._value[0]\n", 0, ["C15"], "gradientTermFixedBC touches its input (raises dirty bit)")

# ---- averaging
mut("lin-weights-swapped-3d", AV, "                     (dz[:,:,1:]*phi._value[1:-1, 1:-1, 0:-1]+dz[:,:,0:-1] *\n                      phi._value[1:-1, 1:-1, 1:])/(dz[:,:,0:-1]+dz[:,:,1:]))",
    "                     (dz[:,:,0:-1]*phi._value[1:-1, 1:-1, 0:-1]+dz[:,:,1:] *\n                      phi._value[1:-1, 1:-1, 1:])/(dz[:,:,0:-1]+dz[:,:,1:]))", 0, ["C11", "C05"], "linearMean 3D z: weights swapped (becomes arithmetic mean)")
mut("upwmean-no-copy", AV, "    phi_tmp = np.copy(phi._value)\n", "    phi_tmp = phi._value\n", 0, ["C15", "C11", "C05"], "upwindMean writes boundary averages into the variable")
mut("upwmean-zero", AV, "            0.5*(uy==0.0)*(phi._value[1:-1,0:-1]+phi._value[1:-1,1:]),\n            np.array([]))", "            0.5*(uy==0.0)*(phi_tmp[1:-1,0:-1]+phi_tmp[1:-1,1:]),\n            np.array([]))", 0, ["C11", "C05"], "upwindMean 2D: zero-velocity average uses modified ghost")
mut("geo-1d-weight", AV, "                phix[i]=np.exp((dx[i]*np.log(phi._value[i])+dx[i+1]*np.log(phi._value[i+1]))/(dx[i+1]+dx[i]))\n",
    "                phix[i]=np.exp((dx[i+1]*np.log(phi._value[i])+dx[i]*np.log(phi._value[i+1]))/(dx[i+1]+dx[i]))\n", 0, ["C11"], "geometricMean 1D: weights swapped")
mut("harm-helper-zero", AV, "    zero = (phi_m == 0.0) | (phi_p == 0.0)\n", "    zero = (phi_m == 0.0) & (phi_p == 0.0)\n", 0, ["C11"], "harmonic helper: zero only if both zero -> 1D/2D disagree? (single zero still gives 0 numerically)")

# ---- cell
mut("cell-add-no-deepcopy", CE, "            return CellVariable(self.domain, \n                                self.value + other.value,\n                                deepcopy(self.BCs))",
    "            return CellVariable(self.domain, \n                                self.value + other.value,\n                                self.BCs)", 0, ["C14", "C09"], "__add__ shares the BC object")
mut("cell-rsub-order", CE, "                                other - self.value,\n", "                                self.value - other,\n", 0, ["C14"], "__rsub__ with scalar computes self - other")
mut("cell-update-value-flag", CE, "        np.copyto(self._value, new_cell._value)\n        self._value.modified = True\n", "        np.copyto(self._value, new_cell._value)\n", 0, ["C09"], "update_value does not raise the dirty bit")
mut("cell-copy-shallow-bc", CE, "        phi = CellVariable(self.domain, np.copy(self._value),\n                           deepcopy(self.BCs))", "        phi = CellVariable(self.domain, np.copy(self._value),\n                           self.BCs)", 0, ["C14", "C09"], "copy() shares the BC object")
mut("cell-apply-no-bcterm", CE, "        if self.BCsTerm_precalc:\n            self._BCsTerm = boundaryConditionsTerm(self.BCs)\n \n", "        \n", 0, ["C09", "C03"], "apply_BCs does not rebuild the cached boundary term")
mut("cell-integral-abs", CE, "        return (v*c).flatten().sum()\n", "        return (v*np.abs(c)).flatten().sum()\n", 0, ["C01"], "domainIntegral sums |c|")
mut("cell-funceval-bc", CE, "        return CellVariable(args[0].domain, \n                            f(args[0].value, \n                              args[1].value),\n                            deepcopy(args[0].BCs))",
    "        return CellVariable(args[0].domain, \n                            f(args[0].value, \n                              args[1].value),\n                            deepcopy(args[1].BCs))", 0, ["C14"], "funceval(2 args) carries the BCs of the second argument")

# ---- face
mut("face-rtruediv", FA, "            return FaceVariable(self.domain, other/self._xvalue,\n                                other/self._yvalue,\n                                other/self._zvalue)",
    "            return FaceVariable(self.domain, other/self._xvalue,\n                                other/self._yvalue,\n                                self._zvalue/other)", 0, ["C14"], "FaceVariable.__rtruediv__: z component inverted")
mut("face-label-zvalue-cyl2d", FA, "        elif (type(self.domain) is CylindricalGrid2D):\n              return self._yvalue\n", "        elif (type(self.domain) is CylindricalGrid2D):\n              return self._zvalue\n", 0, ["C16"], "zvalue getter on CylindricalGrid2D returns the wrong component")
mut("face-locations-tile", FA, "        Y._xvalue = np.tile(m.cellcenters._x[:, np.newaxis], (1, N[1]+1))\n", "        Y._xvalue = np.tile(m.facecenters._x[:-1, np.newaxis], (1, N[1]+1))\n", 0, [], "faceLocations 2D: Y faces report face x (no property claims values of faceLocations) - expected survivor")

# ---- mesh
mut("mesh-ghost-size", ME, "        return np.hstack([facelocation[1]-facelocation[0],\n                          facelocation[1:]-facelocation[0:-1],\n                          facelocation[-1]-facelocation[-2]])",
    "        return np.hstack([facelocation[1]-facelocation[0],\n                          facelocation[1:]-facelocation[0:-1],\n                          facelocation[1]-facelocation[0]])", 0, ["C10", "C03", "C02"], "2D/3D ghost size at the high end repeats the FIRST cell")
mut("mesh-polar-volume", ME, "        V = diff_theta[np.newaxis, :]/(2*np.pi)\\\n            * V_full[:, np.newaxis]\n", "        V = diff_theta[np.newaxis, :]/(np.pi)\\\n            * V_full[:, np.newaxis]\n", 0, ["C10"], "PolarGrid2D volume off by 2 (tests pin totals -> may fail tests)")
mut("mesh-cyl3d-volume-r", ME, "        R2_inner = self.facecenters.r[0:-1]**2\n        R2_outer = self.facecenters.r[1:  ]**2\n        A = np.pi * np.abs(R2_outer - R2_inner)\n        V_full = A[:, np.newaxis]\\\n                 * self.cellsize.z[np.newaxis, 1:-1]",
    "        R2_inner = self.facecenters.r[0:-1]**2\n        R2_outer = self.facecenters.r[1:  ]**2\n        A = np.pi * np.abs(R2_outer - R2_inner)\n        A = A.sum()*self.cellsize.r[1:-1]/self.cellsize.r[1:-1].sum()\n        V_full = A[:, np.newaxis]\\\n                 * self.cellsize.z[np.newaxis, 1:-1]", 0, ["C10", "C01"], "CylindricalGrid3D volumes: right total, wrong distribution over r")
mut("mesh-centers-NL", ME, "                int_range(1, Nx)*dx-dx/2, \n                np.array([0.0]), \n", "                int_range(1, Nx)*dx-dx/2, \n                np.array([0.0]), \n", 0, [], "noop placeholder")

# ---- pdesolver / source
mut("pde-no-copy-bcterm", PD, "    M = Mbc.copy() # need to copy, so that original 'bcterm' is protected\n", "    M = Mbc\n", 0, ["C15", "C09", "C04", "C12"], "solvePDE accumulates onto the cached boundary matrix")
mut("pde-rhs-no-copy", PD, "    RHS = RHSbc.copy() # need to copy, so that original 'bcterm' is protected\n", "    RHS = RHSbc\n", 0, ["C15", "C09", "C04", "C12"], "solvePDE accumulates onto the cached boundary RHS")
mut("pde-no-final-apply", PD, "    phi._value = TrackedArray(np.reshape(phi_new_values, phi.domain.dims+2))\n    phi.apply_BCs()\n", "    phi._value = TrackedArray(np.reshape(phi_new_values, phi.domain.dims+2))\n", 0, ["C03", "C09"], "solvePDE keeps the solver's ghost values (no re-apply)")
mut("pde-explicit-inplace", PD, "    x = phi_old._value + dt*RHS.reshape(phi_old._value.shape)\n", "    x = phi_old._value\n    x += dt*RHS.reshape(phi_old._value.shape)\n", 0, ["C12", "C15", "C09"], "solveExplicitPDE updates its input in place")
mut("pde-tuple-rhs-skip", PD, "            M += Mterm\n            RHS += RHSterm\n", "            M += Mterm\n            RHS = RHS + RHSterm if RHSterm.any() else RHS\n", 0, [], "equivalent mutant (adding zeros)")
mut("src-transient-alpha", SO, "    return linearSourceTerm(a/dt), constantSourceTerm(a*phi/dt)\n", "    return linearSourceTerm(a/dt), constantSourceTerm(phi/dt)\n", 0, ["C12", "C04", "C02", "C17"], "transientTerm: alpha missing on the RHS")
mut("src-linear-3d-ravel", SO, "        AP_diag = beta._value[1:-1, 1:-1, 1:-1].ravel()\n", "        AP_diag = beta._value[1:-1, 1:-1, 1:-1].ravel(order='F')\n", 0, ["C06", "C08", "C02"], "linearSourceTerm 3D: Fortran-order ravel")

# ---- utilities
mut("lim-koren", UT, "            return (np.maximum(0.0, np.minimum(2.0*r, np.minimum((1.0+2.0*r)/3.0, 2.0))))\n", "            return (np.maximum(0.0, np.minimum(2.0*r, np.minimum((2.0+r)/3.0, 2.0))))\n", 0, ["C13"], "Koren limiter: (2+r)/3")
mut("lim-charm-eps", UT, "            return ((r>0.0)*r*(3.0*r+1.0)/(((r+1.0)**2.0)+eps*(r==-1.0)))\n", "            return ((r>0.0)*r*(3.0*r+1.0)/(((r+1.0)**2.0)))\n", 0, ["C13"], "CHARM: eps guard at r=-1 removed")
mut("lim-unknown", UT, "        print(\"The flux limiter of your choice is not available. The SUPERBEE flux limiter is used instead.\")\n        def FL(r):\n            return (np.maximum(0.0, np.maximum(np.minimum(2.0*r,1.0), np.minimum(r,2.0))))",
    "        print(\"The flux limiter of your choice is not available. The SUPERBEE flux limiter is used instead.\")\n        def FL(r):\n            return (np.maximum(0.0, np.minimum(r,1.0)))", 0, ["C13"], "unknown name falls back to MinMod")
mut("tracked-view-base", UT, "        self._modified = True\n        if self.base is not None and isinstance(self.base, TrackedArray):\n            self.base._modified = True\n", "        self._modified = True\n", 0, ["C09"], "TrackedArray: writes through a view do not mark the base")


def apply(mutant, root):
    p = os.path.join(root, mutant['file'])
    s = open(p).read()
    idx = -1
    for _ in range(mutant['n'] + 1):
        idx = s.find(mutant['old'], idx + 1)
        if idx < 0:
            raise SystemExit(f"mutant {mutant['id']}: pattern occurrence {mutant['n']} not found in {mutant['file']}")
    s = s[:idx] + mutant['new'] + s[idx + len(mutant['old']):]
    open(p, 'w').write(s)


def run_one(mutant, args):
    tmp = tempfile.mkdtemp(prefix=f"pyfvmut_{mutant['id']}_", dir=os.environ.get("TMPDIR", "/tmp"))
    out = dict(id=mutant['id'], desc=mutant['desc'], expected=mutant['kill'], killed_by={}, survived=[], tests=None)
    try:
        shutil.copytree(SRC, os.path.join(tmp, "src"))
        apply(mutant, os.path.join(tmp, "src"))
        env = dict(os.environ, VERIF_SRC=os.path.join(tmp, "src"), PYTHONDONTWRITEBYTECODE="1", VERIF_NPROC=str(args.nproc))
        if args.tests:
            shutil.copytree("/repo/tests", os.path.join(tmp, "tests"))
            shutil.copy("/repo/pytest.ini", tmp)
            r = subprocess.run(["/venv/bin/python", "-m", "pytest", "-q", "-p", "no:cacheprovider", "--timeout=900",
                                "--continue-on-collection-errors", "-n", "4", "tests"], cwd=tmp,
                               env=dict(env, PYTHONPATH=os.path.join(tmp, "src")), capture_output=True, text=True)
            tail = r.stdout.strip().splitlines()[-1] if r.stdout.strip() else ""
            out['tests'] = tail
        checks = ALL if args.checks == 'all' else (mutant['kill'] or [])
        for c in checks:
            t0 = time.time()
            # evidence/replays of these runs must not overwrite the real ones: run from a scratch copy of /verif's code
            r = subprocess.run([os.path.join(HERE, "check"), c, "--tier", "quick", "--no-shrink"], env=dict(env, VERIF_OUT=tmp),
                               capture_output=True, text=True)
            dt = time.time() - t0
            buckets = re.findall(r"^\s+bucket ([^:]+(?::[^:\s]+)?)", r.stdout, flags=re.M)
            if r.returncode == 1:
                out['killed_by'][c] = dict(s=round(dt, 1), buckets=sorted(set(buckets))[:4])
            elif r.returncode == 0:
                out['survived'].append(c)
            else:
                out['killed_by'][c] = dict(s=round(dt, 1), buckets=["HARNESS-ERROR"], harness=True)
    finally:
        shutil.rmtree(tmp, ignore_errors=True)
    return out


def main():
    ap = argparse.ArgumentParser()
    ap.add_argument("--tests", action="store_true")
    ap.add_argument("--only", default="")
    ap.add_argument("--checks", default="expected", choices=["expected", "all"])
    ap.add_argument("--jobs", type=int, default=4)
    ap.add_argument("--nproc", type=int, default=4)
    args = ap.parse_args()
    muts = [m for m in M if m['old'] != m['new']]
    if args.only:
        ids = set(args.only.split(","))
        muts = [m for m in muts if m['id'] in ids]
    with ThreadPoolExecutor(args.jobs) as ex:
        results = list(ex.map(lambda m: run_one(m, args), muts))
    json.dump(results, open(os.path.join(HERE, "mutation_report.json"), "w"), indent=1)
    lines = ["# Mutation report (tools/mutation_check.py)", "",
             f"{len(results)} mutants; checks run: {args.checks}; repository tests run on each mutant: {args.tests}", "",
             "| mutant | what | repo tests | killed by (quick tier, seconds, first buckets) | expected but survived |", "|---|---|---|---|---|"]
    for r in results:
        kb = "; ".join(f"{c} ({v['s']}s: {', '.join(v['buckets'][:2])})" for c, v in sorted(r['killed_by'].items()))
        miss = ", ".join(c for c in r['expected'] if c in r['survived'])
        lines.append(f"| {r['id']} | {r['desc']} | {r['tests'] or '-'} | {kb or 'SURVIVED'} | {miss} |")
    nk = sum(1 for r in results if r['killed_by'])
    lines += ["", f"killed: {nk}/{len(results)}"]
    open(os.path.join(HERE, "MUTATION_REPORT.md"), "w").write("\n".join(lines) + "\n")
    print("\n".join(lines[-3:]))


if __name__ == "__main__":
    main()
