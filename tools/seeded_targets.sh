#!/bin/bash
# every stored seeded change against its own target check (quick tier, scratch copy of /repo/src; /repo untouched)
# usage: tools/seeded_targets.sh [ids...]   -> seeded/TARGETS.txt
HERE="$(cd "$(dirname "$0")/.." && pwd)"; cd $HERE
ids=${@:-$(ls -d seeded/*/ | xargs -n1 basename)}
out=seeded/TARGETS.txt; : > $out.tmp
for id in $ids; do
  tgt=${id:0:3}
  VERIF_NPROC=${VERIF_NPROC:-16} tools/seeded_eval.sh $HERE/seeded/$id $id $tgt 2>&1 | cut -c1-260 >> $out.tmp
done
mv $out.tmp $out
echo "caught by target check: $(grep -v demo: $out | grep -c ' rc=1 ') / $(grep -v demo: $out | grep -c ' rc=[0-9]')" >> $out
