NOTES = ("All checks: ./check <ID> --tier quick|thorough, VERIF_SEED honoured (Hypothesis @seed derived from it per shard), "
         "exit 0/1/2 = held / violation / harness error. known_findings.json lists genuine defects recorded (kind=known) or repaired (kind=fixed).")
NOT_APPLICABLE = {}
TB = "numpy, scipy.sparse/SuperLU, Hypothesis and CPython are trusted; tolerances are stated in the evidence file; N<=4 cells per axis (stencil locality argument, DESIGN 1)"
reg("C05", "differential testing on a complete basis of fields (Hypothesis-generated grids/coefficients)",
    "Generated-input search: for each generated grid/coefficient case the matrix terms and the explicit chain are compared on the complete canonical basis of cell arrays (ghosts included), so each case decides the identity for every field; TVD identities against an independently reconstructed limited flux. Exploration over grids, spacings and sign patterns - no proof of absence.",
    TB, "DESIGN.md 3 C05")
