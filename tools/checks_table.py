NOTES = ("All checks: ./check <ID> --tier quick|thorough, VERIF_SEED honoured (Hypothesis @seed derived from it per shard), "
         "exit 0/1/2 = held / violation / harness error. known_findings.json lists genuine defects recorded (kind=known) or repaired (kind=fixed).")
NOT_APPLICABLE = {}
TB = "numpy, scipy.sparse/SuperLU, Hypothesis and CPython are trusted; tolerances are stated in the evidence file; N<=4 cells per axis (stencil locality argument, DESIGN 1)"
reg("C05", "differential testing on a complete basis of fields (Hypothesis-generated grids/coefficients)",
    "Generated-input search: for each generated grid/coefficient case the matrix terms and the explicit chain are compared on the complete canonical basis of cell arrays (ghosts included), so each case decides the identity for every field; TVD identities against an independently reconstructed limited flux. Exploration over grids, spacings and sign patterns - no proof of absence.",
    TB, "DESIGN.md 3 C05")
reg("C01", "generated-input search against a boundary-flux reference (complete basis of fields) + solver-level invariant",
    "Operator level: volume-weighted column sums of every term matrix vs the oracle's boundary-face flux functional, for every basis field, on generated grids/coefficients (closed and open); solver level: domainIntegral over implicit/explicit steps of generated closed and open problems, every periodic declaration enumerated (made at construction or afterwards). Exploration, not proof.",
    TB + "; SphericalGrid3D checked under the discretisation's measure (K1); periodic axes with equal end cells (K2), zero seam velocity for upwind (K7)", "DESIGN.md 3 C01")
reg("C03", "generated-input search against an independent ghost-cell reference model + metamorphic scaling",
    "Ghost layer, plot profile and boundary rows compared with an independent reference Robin/periodic relation after construction, edit+apply_BCs, solvePDE, re-assignment of the data c alone + second solve, and solveExplicitPDE on generated BC combinations; invariance under scaling (a,b,c). Exploration.",
    TB + "; only well-posed Robin coefficients generated; K2 residual on unequal-ended periodic axes attributed to the known finding", "DESIGN.md 3 C03")
reg("C04", "differential testing: harness-assembled system and own solve vs solvePDE / solveMatrixPDE / recording external solver",
    "For generated term lists (kinds, signs, scalings, order) the harness accumulates the system itself and compares stored values, the system handed to an external solver, solveMatrixPDE, row residuals, interior-row contract of every builder, affinity in data; BCs edited after construction (all sides / one side, optionally after a first solve) and cache-less variable kinds (BCsTerm_precalc=False, result of solveExplicitPDE). Exploration.",
    TB, "DESIGN.md 3 C04")
reg("C06", "generated-input search: operator applied to constants, steady uniform state in discretely divergence-free flow",
    "Constants through diffusion/advection/TVD/means on generated grids and velocities; uniform state in stream-function velocity fields under all schemes stays uniform for any dt; source-only solve gives gamma/beta. Exploration.",
    TB, "DESIGN.md 3 C06")
reg("C07", "generated-input search with a validity predicate (range of values) + M-matrix structure of the eliminated step matrix",
    "Generated problems (contrast to 1e6, zeros in D, dt over 8 decades, Dirichlet/no-flux/periodic) must keep every value within the range of previous values and Dirichlet data; the ghost-eliminated step matrix AND the spatial operator alone (dt -> infinity) are checked for non-positive off-diagonals, non-negative row sums and weights summing to one (constant data reproduced exactly). Exploration.",
    TB + "; periodic axes with equal end cells (K2)", "DESIGN.md 3 C07")
reg("C08", "metamorphic / differential testing between paired grids (lift, permute, mirror, cyclic shift)",
    "A generated low-dimensional problem is solved on its grid and on the higher-dimensional grid with a redundant axis (9 embeddings + two-step lifts), or permuted / mirrored / cyclically shifted on Cartesian grids; solutions must correspond incl. boundary values; upwind/TVD problems also with an independent direction field (two-argument call forms). Exploration.",
    TB + "; shift asserted for diffusion/central only (K7)", "DESIGN.md 3 C08")
reg("C10", "generated-input search against closed-form geometry (per cell)",
    "dims, faces, centres, sizes incl. ghost sizes, both constructor forms, per-cell volumes, totals, coordinate and vector-component label reachability against closed forms on generated faces (ratios to 1e4, partial angles, offset origin). Exploration; K1 reported as known finding.",
    TB, "DESIGN.md 3 C10")
reg("C11", "generated-input search against reference mean formulas + bounds/ordering/locality predicates + 1D/2D/3D differential",
    "All five means compared with reference formulas of the two adjacent cells, bounds, ordering, exactness on linear fields, donor rule, independence from edge ghosts, agreement of the 1D loop with the vectorised 2D/3D code incl. zeros. Exploration.",
    TB, "DESIGN.md 3 C11")
reg("C12", "generated-input search with algebraic identities and derived bounds (backward Euler theorems)",
    "Residual identity per cell, steady state as fixed point for any dt/alpha, dt->inf and dt->0 bounds from the dense eliminated operator, explicit update and purity, implicit-explicit O(dt^2) bound and leading term, dt over 12 decades; the time loop reuses one solution variable, the same spatial term objects and one per-cell alpha variable updated in place. Exploration.",
    TB + "; dense inverse of the small eliminated operator (numpy.linalg) trusted", "DESIGN.md 3 C12")
reg("C13", "bounded-exhaustive enumeration (names x singular rationals x powers of ten; all small integer fields) + Hypothesis floats, exact rational oracle",
    "Limiter values against published closed forms in exact rational arithmetic; totality, psi(1)=1, TVD bounds, clipping, elementwise/shape behaviour, unknown-name fallback, independence from an explicit eps argument; TVD correction finite on ALL integer fields {-2..2}^(N+2), N<=3 (exhaustive) and generated 2-D/3-D fields.",
    "Exact reference via fractions.Fraction; numpy trusted; |r|<=1e100", "DESIGN.md 3 C13")
reg("C16", "bounded-exhaustive enumeration of the request matrix against an expected-outcome table from the docs + generated valid requests",
    "Complete enumeration of class x label x object x get/set, component labels, periodic-axis subsets x flag choice x every ordered pair of repeated requests on one variable, constructor arities, shape families, bad coefficient/term objects; generated valid constructor forms / term kinds on grids with N>=1 must not raise.",
    "Expected outcomes transcribed from docs/user_guide/meshes.md and docstrings", "DESIGN.md 3 C16")
reg("C17", "metamorphic testing under unit rescaling (L,T,K over +-6 decades) + term-level linearity",
    "A generated problem and its rescaled twin must give solutions related by exactly K (max(1e-9, 1e-12*cond); cond >= 1e8 discarded, counted); homogeneity/additivity of every term in its coefficient field. Exploration; K4 reported as known finding.",
    TB + "; cases with non-zero gradients below 1e-12 excluded for TVD (K4), counted", "DESIGN.md 3 C17")
reg("C09", "model-based stateful testing (Hypothesis RuleBasedStateMachine + generated programs) and bounded-exhaustive enumeration of edit/solve histories against a reference model and fresh-variable differential",
    "Edit/solve histories are executed on the real objects and on a dict-of-arrays model; after every solve a fresh variable built from the model runs the same solve and full arrays are compared; invariants after every step (visible state equals model, clean variables have reference ghost values and a fresh cached boundary term). All sequences of length <=3 (4) over a 14-letter alphabet and every single edit kind x face x grid class on a clean variable are enumerated; longer histories are sampled. K3 (attributed from the model only) reported as known finding.",
    TB + "; solves skipped while a BC face is degenerate; terms built from coefficient fields only", "DESIGN.md 3 C09")
reg("C14", "generated expression trees evaluated against numpy (reference evaluation) with byte snapshots and cross-modification probes",
    "Expression trees (depth<=3) over all operators and reflected operators, funceval/celleval/faceeval with 1..8 arguments, copy() (also of variables with stale or explicitly given ghost cells): values bitwise equal to numpy, operands byte-identical before/after, result BCs equal to the left-most operand's but unshared, reference ghost layer, no shared memory, edits do not leak either way.",
    TB, "DESIGN.md 3 C14")
reg("C15", "generated-input search with byte snapshots of every input before/after each public builder/solver, bit-identity of repeated calls, aliasing probes",
    "Every public builder and solver on generated inputs: snapshots of mesh, coefficient variables, solution variable, BC arrays, cached boundary term and term objects before/after; repeated calls bit-identical; returned objects share no memory with inputs/mesh; a builder called again after an in-place edit of its input equals the builder on fresh objects (no stale memoisation); zero-containing coefficients for the means; time loop reusing terms equals loop rebuilding them.",
    TB, "DESIGN.md 3 C15")
reg("C02", "generated manufactured solutions (sympy-derived source and boundary data) + observed order of convergence on a resolution ladder",
    "For generated class/spacing/BC-kind/term-set/solution-parameter combinations (plus an enumerated stratum class x origin x scheme x BC pattern x flow direction) the exact solution's source term and boundary data are derived symbolically from the continuous operators; the problem is solved on 3 (escalating to 5) doubling resolutions and the observed order of the max-norm error must reach the scheme's order. Decides consistency of every metric factor, sign and coefficient placement; not a proof of convergence.",
    TB + "; sympy trusted; finite ladders (1-D to 1024, 2-D to 128, 3-D to 32 cells per axis)", "DESIGN.md 3 C02")
