#!/bin/bash
# usage: tools/seeded_confirm.sh <worktree> <ID>
# confirms in the scratch worktree: patch applies, test-suite still passes with it, demo passes without / fails with; then
# stores patch, demo and meta.json under /verif/seeded/<ID>/ and leaves the worktree clean.
WT=$1; ID=$2; HERE="$(cd "$(dirname "$0")/.." && pwd)"
cd $WT || exit 2
git checkout -q -- . 2>/dev/null
PYTHONPATH=$WT/src /venv/bin/python seed/demo.py > /tmp/confirm_${ID}_clean.txt 2>&1; rc0=$?
git apply seed/patch.diff || { echo "$ID: patch does not apply"; exit 2; }
PYTHONPATH=$WT/src /venv/bin/python seed/demo.py > /tmp/confirm_${ID}_mut.txt 2>&1; rc1=$?
tests=$(PYTHONPATH=$WT/src /venv/bin/python -m pytest -q -p no:cacheprovider --timeout=900 --continue-on-collection-errors -n 6 2>&1 | tail -1)
git checkout -q -- .
echo "$ID: demo clean rc=$rc0 changed rc=$rc1; tests with change: $tests"
if [ $rc0 -eq 0 ] && [ $rc1 -ne 0 ] && echo "$tests" | grep -q "48 passed"; then
  mkdir -p $HERE/seeded/$ID
  cp seed/patch.diff seed/demo.py $HERE/seeded/$ID/
  /venv/bin/python - "$WT/seed/meta.json" "$HERE/seeded/$ID/meta.json" "$tests" "$(tail -3 /tmp/confirm_${ID}_mut.txt | tr '\n' ' ' | cut -c1-400)" <<'PY'
import json, sys
src, dst, tests, demo_out = sys.argv[1:5]
try:
    m = json.load(open(src))
except Exception:
    m = {}
m['confirmed_by_verifier'] = dict(
    scratch_worktree="git -C /repo worktree add --detach <dir> HEAD (removed afterwards)",
    demo_unmodified_exit=0, demo_changed_exit="non-zero", demo_changed_tail=demo_out,
    tests_with_change=tests,
    commands=["PYTHONPATH=<wt>/src /venv/bin/python seed/demo.py", "git apply seed/patch.diff",
              "PYTHONPATH=<wt>/src /venv/bin/python -m pytest -q -p no:cacheprovider --timeout=900 --continue-on-collection-errors -n 6"])
json.dump(m, open(dst, 'w'), indent=1)
PY
  echo "$ID: stored in seeded/$ID"
else
  echo "$ID: NOT confirmed"
fi
