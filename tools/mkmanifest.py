#!/usr/bin/env python3
"""Regenerates MANIFEST.json from the table below (keeps it valid at all times)."""
import json, os, sys
HERE = os.path.dirname(os.path.dirname(os.path.abspath(__file__)))
props = [json.loads(l) for l in open(os.path.join(HERE, "properties.jsonl"))]
ids = [p["id"] for p in props]

# id -> (technique, level text, level note, design ref)
CHECKS = {}
def reg(i, technique, text, note, ref):
    CHECKS[i] = (technique, text, note, ref)

exec(open(os.path.join(HERE, "tools", "checks_table.py")).read())

checks = []
for i in ids:
    if i not in CHECKS:
        continue
    technique, text, note, ref = CHECKS[i]
    checks.append(dict(property_id=i, quick_cmd=f"./check {i} --tier quick", thorough_cmd=f"./check {i} --tier thorough",
                       evidence_file=f"evidence/{i}.json", replay_cmd_template=f"./check {i} --replay {{path}}",
                       engine="pbt", level_claimed=dict(category="exploration", text=text, design_ref=ref),
                       level_note=note, technique=technique))
na = [dict(property_id=i, reason=NOT_APPLICABLE.get(i, "check not built yet (work in progress; see DESIGN.md section 3)")) for i in ids if i not in CHECKS]
man = dict(version=1, setup_cmd="./setup.sh",
           hooks=dict(guard="PYFVTOOL_VERIF", enable="none needed: the checks import /repo/src directly (PYTHONPATH=/repo/src ahead of the editable install), in fresh processes, so the working tree is what is exercised; no instrumentation was added to the repository",
                      baseline_off_cmd="cd /repo && /venv/bin/python -m pytest -q -p no:cacheprovider --timeout=900 --continue-on-collection-errors",
                      source_commits=[], add_only=True),
           engines=[dict(name="pbt", path="pbt/run.py", serves_properties=[c["property_id"] for c in checks],
                         kind_free_text="Hypothesis-driven property-based testing (plus bounded-exhaustive enumeration and stateful machines) against explicit oracles; collect-then-shrink runner with replay files")],
           checks=checks, not_applicable=na, notes=NOTES)
json.dump(man, open(os.path.join(HERE, "MANIFEST.json"), "w"), indent=1)
try:
    import jsonschema
    jsonschema.validate(man, json.load(open(os.path.join(HERE, "schemas", "MANIFEST.schema.json"))))
    print("MANIFEST.json valid;", len(checks), "checks,", len(na), "not_applicable")
except ImportError:
    print("written (jsonschema not importable here)")
