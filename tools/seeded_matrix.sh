#!/bin/bash
# all checks against all seeded changes (scratch copies); writes seeded/MATRIX.txt
HERE="$(cd "$(dirname "$0")/.." && pwd)"; cd $HERE
OUT=seeded/MATRIX.txt; : > $OUT.tmp
run() { VERIF_NPROC=8 tools/seeded_eval.sh $HERE/seeded/$1 $1 >> $OUT.tmp.$1 2>&1; }
ids=$(ls seeded | grep -E '^[A-Z0-9_-]+$' | grep -v MATRIX)
for pair in $(echo $ids | xargs -n2 | tr ' ' ','); do
  a=${pair%,*}; b=${pair#*,}
  run $a & if [ "$b" != "$a" ]; then run $b & fi; wait
done
cat $OUT.tmp.* > $OUT; rm -f $OUT.tmp*
