#!/bin/bash
# all quick checks against all seeded changes (scratch copies of /repo/src; /repo itself is never touched); writes seeded/MATRIX.txt
# usage: tools/seeded_matrix.sh [ids...]   (default: every directory under seeded/)
HERE="$(cd "$(dirname "$0")/.." && pwd)"; cd $HERE
ids=${@:-$(ls -d seeded/*/ | xargs -n1 basename)}
for id in $ids; do
  VERIF_NPROC=${VERIF_NPROC:-8} tools/seeded_eval.sh $HERE/seeded/$id $id > seeded/.matrix.$id 2>&1
done
cat seeded/.matrix.* > seeded/MATRIX.txt; rm -f seeded/.matrix.*
