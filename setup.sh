#!/bin/bash
# Offline setup: install the pure-python helper packages the checks need into /verif/.deps
# (never touches /venv or the repo).  Idempotent.
set -e
cd "$(dirname "$0")"
WH=/opt/veriftools/wheels
PY=/venv/bin/python
export PIP_NO_INDEX=1 PIP_DISABLE_PIP_VERSION_CHECK=1
mkdir -p .deps
need=""
for pkg in hypothesis sympy mpmath jsonschema; do
  if ! PYTHONPATH="$PWD/.deps" $PY -c "import $pkg" >/dev/null 2>&1; then need="$need $pkg"; fi
done
if [ -n "$need" ]; then
  $PY -m pip install --quiet --no-index --find-links "$WH" --target .deps $need
fi
# self-test: pyfvtool must import from the working tree, helper packages must import
PYTHONPATH="/repo/src:$PWD/.deps:$PWD" PYTHONDONTWRITEBYTECODE=1 $PY - <<'PY'
import pyfvtool, hypothesis, sympy, jsonschema, os, sys
assert os.path.realpath(pyfvtool.__file__).startswith("/repo/src/"), pyfvtool.__file__
print("setup ok: pyfvtool", pyfvtool.__version__, "hypothesis", hypothesis.__version__, "sympy", sympy.__version__)
PY
