"""Hypothesis strategies that build JSON-able case fragments (construction, not rejection).

Bulk numeric fields are expanded deterministically from values drawn by Hypothesis
(a style, an integer seed, a range): `expand()` feeds the drawn integer to numpy's counter-based
PCG64 generator, so a case is still a pure function of the Hypothesis choice sequence (replayable,
shrinkable in its structure); the expanded arrays are stored in the case, so a replay file does not
depend on any generator at all.  Small fields (<= 24 entries) are, half of the time, drawn entry
by entry by Hypothesis itself.
"""
import math
import os

import numpy as np
from hypothesis import strategies as st

from .common import AXES, GRIDS, NDIM, LIMITERS, bc_shape, face_shapes, full_shape

TWO_PI = 2 * math.pi

finite = dict(allow_nan=False, allow_infinity=False)


def _round(x, nd=6):
    return float(np.round(x, nd))


# ----------------------------------------------------------------------------- grids

@st.composite
def axis_faces(draw, kind, n, spacing, r0_mode=None, theta_touch=False):
    """strictly increasing face positions for one axis"""
    if spacing == 'uniform':
        w = np.ones(n)
    elif spacing == 'ratio':   # geometric grading
        q = draw(st.sampled_from([0.5, 0.8, 1.25, 2.0, 3.0]))
        if n > 8:
            q = q ** (8.0 / n)          # keep the total ratio <= 3^8 so faces stay strictly increasing
        w = q ** np.arange(n)
    else:
        w = np.array([draw(st.floats(0.2, 5.0, **finite)) for _ in range(n)])
    cs = np.concatenate([[0.0], np.cumsum(w)]) / w.sum()
    cs[-1] = 1.0
    if kind == 'x':
        a = draw(st.sampled_from([0.0, -1.0, 0.5, -2.5, 1.75]))
        L = draw(st.sampled_from([1.0, 0.5, 2.0, 3.0, 0.75]))
    elif kind == 'r':
        mode = r0_mode or draw(st.sampled_from(['zero', 'zero', 'offset', 'offset', 'offset']))
        a = 0.0 if mode == 'zero' else draw(st.sampled_from([0.1, 0.5, 1.0, 2.0]))
        L = draw(st.sampled_from([1.0, 0.5, 2.0, 3.0]))
    elif kind in ('thc', 'ph'):
        full = draw(st.booleans())
        if full:
            a, L = 0.0, TWO_PI
        else:
            a = draw(st.sampled_from([0.0, 0.3, 1.0]))
            L = draw(st.sampled_from([0.5, 1.0, 2.0, 4.0]))
    elif kind == 'ths':
        if theta_touch and draw(st.booleans()):
            a, L = 0.0, math.pi
        else:
            a = draw(st.sampled_from([0.1, 0.4, 1.0]))
            b = draw(st.sampled_from([1.6, 2.2, math.pi - 0.1]))
            L = b - a
    else:
        raise ValueError(kind)
    f = a + L * cs
    return [float(x) for x in f]


@st.composite
def grids(draw, classes=GRIDS, nmax=4, nmax3=3, nmin=1, spacings=('uniform', 'random', 'random', 'ratio'),
          r0_mode=None, theta_touch=False, same_spacing=False):
    name = draw(st.sampled_from(list(classes)))
    kinds = AXES[name]
    nd = len(kinds)
    if os.environ.get('PBT_TIER') == 'thorough':       # thorough tier: larger grids (every per-cell-count branch plus interior-only cells)
        nmax, nmax3 = nmax + 2, nmax3 + 1
    top = nmax3 if nd == 3 else nmax
    faces = []
    sp_all = draw(st.sampled_from(list(spacings))) if same_spacing else None
    sps = []
    if 'uniform' in spacings and r0_mode != 'offset' and draw(st.integers(0, 5)) == 0:
        # equispaced from 0 on every axis: the grid both constructor forms can express
        for k in kinds:
            n = draw(st.integers(nmin, top))
            L = draw(st.sampled_from(dict(x=[1.0, 0.5, 3.0], r=[1.0, 0.5, 2.0], thc=[TWO_PI, 1.0, 2.0], ph=[TWO_PI, 1.0, 2.0], ths=[1.0, 2.0, 3.0])[k]))
            faces.append([float(x) for x in (np.arange(n + 1) * (L / n))])
            sps.append('uniform')
        return dict(name=name, faces=faces, spacing=sps)
    for k in kinds:
        n = draw(st.integers(nmin, top))
        sp = sp_all or draw(st.sampled_from(list(spacings)))
        sps.append(sp)
        faces.append(draw(axis_faces(k, n, sp, r0_mode=r0_mode, theta_touch=theta_touch)))
    return dict(name=name, faces=faces, spacing=sps)


# ----------------------------------------------------------------------------- fields

def expand(style, seed, shape, lo=-1.0, hi=1.0):
    """deterministic array from (style, seed); all randomness comes from `seed`, drawn by Hypothesis"""
    shape = tuple(int(s) for s in shape)
    rng = np.random.Generator(np.random.PCG64(int(seed)))
    if style == 'const':
        v = lo + (hi - lo) * rng.random()
        return np.full(shape, _round(v, 3))
    if style == 'int':
        return rng.integers(-2, 3, size=shape).astype(float)
    if style == 'quarter':
        return rng.integers(-8, 9, size=shape).astype(float) / 4.0
    if style == 'generic':
        return lo + (hi - lo) * rng.random(shape)
    if style == 'zeros':
        a = lo + (hi - lo) * rng.random(shape)
        a[rng.random(shape) < 0.3] = 0.0
        return a
    if style == 'pos':
        return 0.1 + (max(hi, 0.2) - 0.1) * rng.random(shape)
    if style == 'neg':
        return -(0.1 + (max(hi, 0.2) - 0.1) * rng.random(shape))
    if style == 'contrast':
        return 10.0 ** (rng.random(shape) * 6 - 3)
    if style == 'contrast0':
        a = 10.0 ** (rng.random(shape) * 6 - 3)
        a[rng.random(shape) < 0.25] = 0.0
        return a
    raise ValueError(style)


@st.composite
def arrays(draw, shape, styles=('generic', 'int', 'quarter', 'const', 'zeros'), lo=-1.0, hi=1.0, direct=True):
    shape = tuple(int(s) for s in shape)
    n = int(np.prod(shape)) if len(shape) else 1
    if direct and 0 < n <= 24 and draw(st.integers(0, 3)) == 0:
        vals = [draw(st.floats(lo, hi, **finite, width=32)) for _ in range(n)]
        return np.array(vals, dtype=float).reshape(shape).tolist()
    style = draw(st.sampled_from(list(styles)))
    seed = draw(st.integers(0, 2 ** 31 - 1))
    return expand(style, seed, shape, lo, hi).tolist()


def cell_full(dims, **kw):
    return arrays(full_shape(dims), **kw)


def cell_interior(dims, **kw):
    return arrays(tuple(dims), **kw)


@st.composite
def face_field(draw, dims, styles=('generic', 'zeros', 'pos', 'neg', 'int', 'const'), lo=-1.0, hi=1.0):
    return [draw(arrays(s, styles=styles, lo=lo, hi=hi)) for s in face_shapes(dims)]


def diffusivity(dims, zeros=True):
    sty = ('pos', 'const_pos', 'contrast') + (('contrast0',) if zeros else ())
    return _diff(dims, sty)


@st.composite
def _diff(draw, dims, sty):
    out = []
    for s in face_shapes(dims):
        style = draw(st.sampled_from(list(sty)))
        seed = draw(st.integers(0, 2 ** 31 - 1))
        if style == 'const_pos':
            out.append(np.full(s, draw(st.sampled_from([1.0, 0.1, 2.5, 1e-3, 40.0]))).tolist())
        else:
            out.append(expand(style, seed, s, 0.1, 2.0).tolist())
    return out


# ----------------------------------------------------------------------------- boundary conditions

@st.composite
def bc_side(draw, shape, side, kinds=('D', 'N', 'R'), varying=True):
    """one non-periodic side.  Robin signs are chosen so that the ghost equation is non-singular:
    hi side: a/(h d) + b/2 with a,b > 0 ; lo side: -a/(h d) + b/2 with a < 0 < b."""
    kind = draw(st.sampled_from(list(kinds)))
    seed = draw(st.integers(0, 2 ** 31 - 1))
    vary = varying and draw(st.booleans())

    def arr(lo, hi, k):
        if vary:
            return expand('generic', seed + k, shape, lo, hi)
        return expand('const', seed + k, shape, lo, hi)
    if kind == 'D':
        a, b, c = np.zeros(shape), np.ones(shape), arr(-1, 1, 0)
        if draw(st.booleans()):
            s = arr(0.5, 3, 3)          # b need not be 1
            b, c = b * s, c * s
    elif kind == 'N':
        a, b, c = np.ones(shape), np.zeros(shape), arr(-1, 1, 0)
        if draw(st.booleans()):
            s = arr(0.5, 3, 3) * draw(st.sampled_from([1.0, -1.0]))
            a, c = a * s, c * s
    else:
        sgn = 1.0 if side == 'hi' else -1.0
        a, b, c = sgn * arr(0.3, 2, 1), arr(0.3, 2, 2), arr(-1, 1, 0)
    return dict(kind=kind, a=a.tolist(), b=b.tolist(), c=c.tolist())


@st.composite
def bcs(draw, name, dims, kinds=('D', 'N', 'R'), periodic=True, varying=True, p_periodic=0.3):
    spec = []
    for ax, k in enumerate(AXES[name]):
        shp = bc_shape(dims, ax)
        ent = dict(periodic='none')
        ent['lo'] = draw(bc_side(shp, 'lo', kinds, varying))
        ent['hi'] = draw(bc_side(shp, 'hi', kinds, varying))
        if periodic and k != 'r' and draw(st.floats(0, 1)) < p_periodic:
            ent['periodic'] = draw(st.sampled_from(['both', 'both', 'lo', 'hi']))
        spec.append(ent)
    return spec


def noflux_bcs(name, dims, periodic_axes=()):
    spec = []
    for ax in range(len(dims)):
        shp = bc_shape(dims, ax)
        e = dict(periodic='both' if ax in periodic_axes else 'none')
        for s in ('lo', 'hi'):
            e[s] = dict(kind='N', a=np.ones(shp).tolist(), b=np.zeros(shp).tolist(), c=np.zeros(shp).tolist())
        spec.append(e)
    return spec


limiter_names = st.sampled_from(LIMITERS)


# ----------------------------------------------------------------------------- divergence-free velocity

@st.composite
def divfree_velocity(draw, name, faces, amp=None):
    """Discretely divergence-free face velocity from discrete stream functions (>=2-D) or a constant
    flow rate (1-D):  A_a u_a = +d_b psi,  A_b u_b = -d_a psi  with the face-area factors A of the
    discretisation (oracle.Geometry.Ad).  psi comes from `expand` (seed drawn by Hypothesis)."""
    from .oracle import Geometry
    import itertools
    geo = Geometry(name, faces)
    d = geo.dims
    nd = geo.nd
    if amp is None:
        amp = draw(st.sampled_from([1.0, 0.1, 10.0, 1e-3]))
    shapes = face_shapes(d)
    comps = [np.zeros(s) for s in shapes]
    if nd == 1:
        q = draw(st.sampled_from([1.0, -1.0, 0.5, -0.25, 0.0])) * amp
        A = geo.Ad[0]
        if np.any(A == 0):
            q = 0.0      # no source at the axis r = 0: the only divergence-free radial flow is rest
            comps[0] = np.zeros(shapes[0])
        else:
            comps[0] = q / A
    else:
        for a, b in itertools.combinations(range(nd), 2):
            shp = [d[k] + 1 if k in (a, b) else d[k] for k in range(nd)]
            style = draw(st.sampled_from(['generic', 'int', 'zeros']))
            seed = draw(st.integers(0, 2 ** 31 - 1))
            psi = expand(style, seed, shp) * amp
            Aa, Ab = geo.Ad[a], geo.Ad[b]
            # planes of zero-area faces (axis r = 0, pole theta = 0): no flux can cross them, so psi must not vary
            # along the other direction there
            for ax, other, Ax in ((a, b, Aa), (b, a, Ab)):
                for end in (0, -1):
                    if np.all(np.take(Ax, end, axis=ax) == 0):
                        idx = [slice(None)] * nd
                        idx[ax] = end
                        first = list(idx)
                        first[other] = slice(0, 1)
                        psi[tuple(idx)] = np.broadcast_to(psi[tuple(first)], psi[tuple(idx)].shape)
            da = np.diff(psi, axis=b)     # lives on a-faces
            db = np.diff(psi, axis=a)     # lives on b-faces
            with np.errstate(all='ignore'):
                comps[a] = comps[a] + np.where(Aa > 0, da / np.where(Aa > 0, Aa, 1.0), 0.0)
                comps[b] = comps[b] - np.where(Ab > 0, db / np.where(Ab > 0, Ab, 1.0), 0.0)
    return [c.tolist() for c in comps]
