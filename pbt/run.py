"""Runner: ./check <ID> [--tier quick|thorough] [--replay FILE]

exit 0  property held on everything explored (known findings are reported as KNOWN-FINDING lines)
exit 1  violation: prints  VIOLATION property=<ID> replay=<path>
exit 2  harness error (never reported as a violation)
"""
import argparse
import collections
import hashlib
import importlib
import json
import multiprocessing as mp
import os
import random
import sys
import time
import traceback

HERE = os.path.dirname(os.path.dirname(os.path.abspath(__file__)))
NPROC = int(os.environ.get("VERIF_NPROC", "16"))
OUT = os.environ.get("VERIF_OUT") or HERE      # scratch output root for mutation runs; the registered commands use /verif itself
SCHEMA_PATHS = [os.path.join(HERE, "schemas", "EVIDENCE.schema.json"), "/root/.vp/EVIDENCE.schema.json"]


def _import_prop(pid):
    return importlib.import_module("pbt.props." + pid.lower())


def derive_seed(seed, shard, salt=""):
    h = hashlib.sha256(f"{seed}/{shard}/{salt}".encode()).digest()
    return int.from_bytes(h[:8], "big")


# --------------------------------------------------------------------------- evaluation of one case

def evaluate(mod, case):
    """returns (result, crash_failure_or_None).  An exception whose traceback passes through
    pyfvtool is a crash of the code under test on a generated (documented-domain) input -> Failure;
    any other exception is a harness error and propagates."""
    from . import common
    from .common import Failure, HarnessError
    from .result import Result
    common.LAYOUT = case.get('_layout', 'C') if isinstance(case, dict) else 'C'
    common.CTOR = case.get('_ctor', 'faces') if isinstance(case, dict) else 'faces'
    common.FVCTOR = case.get('_fvctor', 'ctor') if isinstance(case, dict) else 'ctor'
    common.DTYPE = 'float' if getattr(mod, 'NO_INT_DTYPE', False) else \
        (os.environ.get('PBT_FORCE_DTYPE') or (case.get('_dtype', 'float') if isinstance(case, dict) else 'float'))
    try:
        return mod.check(case)
    except HarnessError:
        raise
    except Exception as e:  # noqa
        cf = crash_failure(e)
        if cf is None:
            raise
        r = Result()
        r.fail(*cf)
        if hasattr(mod, "annotate_crash"):
            mod.annotate_crash(case, r)
        return r


def crash_failure(e):
    """(bucket, msg) if the exception being handled passed through pyfvtool code, else None"""
    tb = traceback.extract_tb(sys.exc_info()[2])
    inner = None
    for fr in tb:
        if "/pyfvtool/" in fr.filename:
            inner = fr
    if inner is None:
        return None
    return (f"crash:{type(e).__name__}:{os.path.basename(inner.filename)}:{inner.name}",
            f"{type(e).__name__}: {e} (in {inner.name}, {os.path.basename(inner.filename)}:{inner.lineno})")


class Stats:
    def __init__(self):
        self.evaluations = 0
        self.nontrivial = set()
        self.hist = collections.Counter()
        self.samples = []
        self.buckets = {}      # bucket -> dict(count, case, msg, mag, known, size)
        self.discarded = 0
        self.excluded = collections.Counter()
        self.worst = {}
        self.errors = []
        self.units = 0

    def record(self, mod, case, max_samples=3):
        from .common import case_hash, dumps
        res = evaluate(mod, case)
        self.evaluations += 1
        self.units += int(getattr(res, 'units', 1))
        if res.discarded:
            self.discarded += 1
            self.hist[f"discard={getattr(res, 'discard_reason', 'unspecified')}"] += 1
        for k in res.excluded:
            self.excluded[k] += 1
        for k, v in res.worst.items():
            if v == v and v > self.worst.get(k, -1.0):
                self.worst[k] = float(v)
        nt = bool(mod.nontrivial(case))
        if nt:
            self.nontrivial.add(case_hash(case))
            if len(self.samples) < max_samples:
                self.samples.append(case)
        for k, v in mod.classify(case).items():
            self.hist[f"{k}={v}"] += 1
        self.hist[f"nontrivial={nt}"] += 1
        if res.failures:
            size = len(dumps(case))
            for f in res.failures:
                b = self.buckets.get(f.bucket)
                if b is None:
                    self.buckets[f.bucket] = dict(count=1, case=case, msg=f.msg, mag=f.mag, known=f.known, size=size)
                else:
                    b["count"] += 1
                    if size < b["size"]:
                        b.update(case=case, msg=f.msg, mag=f.mag, size=size, known=f.known)
        return res

    def export(self):
        return dict(evaluations=self.evaluations, nontrivial=self.nontrivial, hist=self.hist,
                    samples=self.samples, buckets=self.buckets, discarded=self.discarded,
                    excluded=self.excluded, worst=self.worst, units=self.units)

    def merge(self, d):
        self.evaluations += d["evaluations"]
        self.units += d.get("units", 0)
        self.nontrivial |= d["nontrivial"]
        self.hist.update(d["hist"])
        for s in d["samples"]:
            if len(self.samples) < 5:
                self.samples.append(s)
        self.discarded += d["discarded"]
        self.excluded.update(d["excluded"])
        for k, v in d["worst"].items():
            if v > self.worst.get(k, -1.0):
                self.worst[k] = v
        for k, b in d["buckets"].items():
            mine = self.buckets.get(k)
            if mine is None:
                self.buckets[k] = dict(b)
            else:
                mine["count"] += b["count"]
                if b["size"] < mine["size"]:
                    c = mine["count"]
                    mine.update(b)
                    mine["count"] = c


# --------------------------------------------------------------------------- worker entry points

def with_layout(strat):
    """every generated case additionally draws the memory layout of the arrays handed to pyfvtool"""
    from hypothesis import strategies as st
    return st.builds(lambda c, l, k, t, f: dict(c, _layout=l, _ctor=k, _dtype=t, _fvctor=f) if isinstance(c, dict) else c, strat,
                     st.sampled_from(['C', 'C', 'F', 'strided']), st.sampled_from(['faces', 'NL']),
                     st.sampled_from(['float', 'float', 'float', 'int']), st.sampled_from(['ctor', 'ctor', 'labels']))


def _shard_generate(args):
    pid, tier, seed, shard, n = args
    try:
        import hypothesis
        from hypothesis import HealthCheck, Phase, given, settings
        mod = _import_prop(pid)
        stats = Stats()
        strat = with_layout(mod.strategy(tier))

        from .common import case_hash
        seen = set()
        dup = [0]

        # Hypothesis' generate phase re-emits (mutations of) earlier examples that often expand to the very same case;
        # such duplicates are skipped (counted) and generation continues until n DISTINCT cases were evaluated
        @hypothesis.seed(derive_seed(seed, shard))
        @settings(max_examples=3 * n + 10, database=None, deadline=None, derandomize=False,
                  report_multiple_bugs=False, suppress_health_check=list(HealthCheck),
                  phases=[Phase.generate])
        @given(strat)
        def run(case):
            if stats.evaluations >= n:
                return
            h = case_hash(case)
            if h in seen:
                dup[0] += 1
                return
            seen.add(h)
            stats.record(mod, case)
        run()
        stats.hist["duplicates_skipped"] += dup[0]
        return ("ok", stats.export())
    except Exception:  # harness error
        return ("err", traceback.format_exc())


def _shard_enumerate(args):
    pid, tier, shard, nshards = args
    try:
        mod = _import_prop(pid)
        stats = Stats()
        for i, case in enumerate(mod.enumerate_cases(tier)):
            if i % nshards == shard:
                stats.record(mod, case)
        return ("ok", stats.export())
    except Exception:
        return ("err", traceback.format_exc())


def _shard_custom(args):
    """property modules with a stateful / custom engine: mod.run_custom(tier, seed, shard, nshards, stats)"""
    pid, tier, seed, shard, nshards = args
    try:
        mod = _import_prop(pid)
        stats = Stats()
        mod.run_custom(tier, derive_seed(seed, shard, "custom"), shard, nshards, stats)
        return ("ok", stats.export())
    except Exception:
        return ("err", traceback.format_exc())


def _shrink(args):
    """re-find the failure of one bucket with the same seed and let Hypothesis shrink it (bounded)."""
    pid, tier, seed, shard, n, bucket, case0, budget_s = args
    try:
        import hypothesis
        from hypothesis import HealthCheck, Phase, settings
        from .common import dumps
        mod = _import_prop(pid)
        best = dict(case=case0, size=len(dumps(case0)))
        t_end = time.time() + budget_s
        calls = [0]

        def cond(case):
            if time.time() > t_end:
                return False
            calls[0] += 1
            try:
                res = evaluate(mod, case)
            except Exception:
                return False
            hit = any(f.bucket == bucket for f in res.failures)
            if hit:
                s = len(dumps(case))
                if s <= best["size"]:
                    best.update(case=case, size=s)
            return hit
        try:
            hypothesis.find(with_layout(mod.strategy(tier)), cond,
                            settings=settings(max_examples=n, database=None, deadline=None,
                                              suppress_health_check=list(HealthCheck),
                                              phases=[Phase.generate, Phase.shrink]),
                            random=random.Random(derive_seed(seed, shard)))
        except Exception:
            pass
        case = best["case"]
        if hasattr(mod, "reduce_case"):
            case = structural_reduce(mod, bucket, case, t_end + budget_s)
        return ("ok", bucket, case, calls[0])
    except Exception:
        return ("err", bucket, traceback.format_exc(), 0)


def structural_reduce(mod, bucket, case, t_end):
    """greedy reducer over the expanded case: the property module proposes simpler variants."""
    from .common import dumps
    improved = True
    while improved and time.time() < t_end:
        improved = False
        for cand in mod.reduce_case(case):
            if time.time() > t_end:
                break
            try:
                res = evaluate(mod, cand)
            except Exception:
                continue
            if any(f.bucket == bucket for f in res.failures) and len(dumps(cand)) < len(dumps(case)):
                case = cand
                improved = True
                break
    return case


# --------------------------------------------------------------------------- known findings

def load_known(pid):
    path = os.path.join(HERE, "known_findings.json")
    if not os.path.exists(path):
        return []
    with open(path) as fh:
        data = json.load(fh)
    return [e for e in data.get("findings", []) if e.get("property") == pid]


def write_replay(pid, bucket, info, seed, tier, sub="new"):
    from .common import jsonable
    d = os.path.join(OUT, "replays", sub)
    os.makedirs(d, exist_ok=True)
    h = hashlib.sha1(bucket.encode()).hexdigest()[:10]
    path = os.path.join(d, f"{pid}-{h}.json")
    with open(path, "w") as fh:
        json.dump(jsonable(dict(property=pid, bucket=bucket, msg=info.get("msg"), mag=info.get("mag"),
                                seed=seed, tier=tier, case=info["case"])), fh, indent=1, sort_keys=True)
    return os.path.relpath(path, OUT)


def run_replay_file(mod, path):
    with open(path) as fh:
        data = json.load(fh)
    case = data["case"] if "case" in data else data
    return data, evaluate(mod, case)


# --------------------------------------------------------------------------- main

def main(argv=None):
    ap = argparse.ArgumentParser()
    ap.add_argument("pid")
    ap.add_argument("--tier", default=os.environ.get("VERIF_TIER", "quick"), choices=["quick", "thorough"])
    ap.add_argument("--replay")
    ap.add_argument("--budget", type=int, default=None, help="override number of generated cases")
    ap.add_argument("--no-shrink", action="store_true")
    a = ap.parse_args(argv)
    pid = a.pid.upper()
    os.environ['PBT_TIER'] = a.tier
    seed = int(os.environ.get("VERIF_SEED", "1") or 1)
    t0 = time.time()
    try:
        import pyfvtool
        src = os.path.realpath(pyfvtool.__file__)
        want = os.environ.get("VERIF_SRC", "/repo/src")
        if not src.startswith(os.path.realpath(want) + "/"):
            print(f"HARNESS-ERROR: pyfvtool imported from {src}, expected under {want}")
            return 2
        mod = _import_prop(pid)
    except Exception:
        traceback.print_exc()
        print("HARNESS-ERROR: import failed")
        return 2

    known_entries = load_known(pid)
    known_ids = {e["id"] for e in known_entries if e.get("kind") == "known"}

    if a.replay:
        try:
            data, res = run_replay_file(mod, a.replay)
        except Exception:
            traceback.print_exc()
            print("HARNESS-ERROR: replay failed to run")
            return 2
        bad = [f for f in res.failures if not (f.known and f.known in known_ids)]
        for f in res.failures:
            tag = "known" if f not in bad else "FAIL"
            print(f"  [{tag}] {f.bucket}: {f.msg} (mag={f.mag})")
        if bad:
            print(f"VIOLATION property={pid} replay={a.replay}")
            return 1
        print(f"replay {a.replay}: property holds" + (" (known finding reproduced)" if res.failures else ""))
        return 0

    violations = []     # (bucket, replay path, msg)
    known_seen = {}     # id -> msg
    total = Stats()
    replay_info = dict(regress=0, known=0)
    try:
        # ---- phase A: replay tier (regressions of fixed defects / seeded mutants; known findings)
        rdir = os.path.join(HERE, "replays", "regress", pid)
        if os.path.isdir(rdir):
            for fn in sorted(os.listdir(rdir)):
                if not fn.endswith(".json"):
                    continue
                p = os.path.join(rdir, fn)
                data, res = run_replay_file(mod, p)
                replay_info["regress"] += 1
                for f in res.failures:
                    if f.known and f.known in known_ids:
                        known_seen.setdefault(f.known, f.msg)
                    else:
                        violations.append((f.bucket, os.path.relpath(p, HERE), f.msg))
        for e in known_entries:
            if e.get("kind") != "known" or not e.get("replay"):
                continue
            p = os.path.join(HERE, e["replay"])
            data, res = run_replay_file(mod, p)
            replay_info["known"] += 1
            hit = [f for f in res.failures if f.known == e["id"]]
            other = [f for f in res.failures if not (f.known and f.known in known_ids)]
            if hit:
                known_seen.setdefault(e["id"], hit[0].msg)
            else:
                print(f"NOTE: known finding {e['id']} no longer reproduces from {e['replay']}")
            for f in other:
                violations.append((f.bucket, e["replay"], f.msg))

        # ---- phase B/C: enumeration, custom engines and generation, sharded over processes
        jobs = []
        n = a.budget if a.budget is not None else mod.budget(a.tier)
        mps = int(getattr(mod, 'MIN_PER_SHARD', 20))
        nsh = max(1, min(NPROC, n // mps if n >= mps else 1)) if n > 0 else 0
        per = (n + nsh - 1) // nsh if nsh else 0
        ctx = mp.get_context("fork")
        results = []
        with ctx.Pool(NPROC) as pool:
            asyncs = []
            if hasattr(mod, "enumerate_cases"):
                ne = NPROC
                asyncs += [pool.apply_async(_shard_enumerate, ((pid, a.tier, s, ne),)) for s in range(ne)]
            if hasattr(mod, "run_custom"):
                nc = getattr(mod, "CUSTOM_SHARDS", NPROC)
                asyncs += [pool.apply_async(_shard_custom, ((pid, a.tier, seed, s, nc),)) for s in range(nc)]
            gen_async = [(s, pool.apply_async(_shard_generate, ((pid, a.tier, seed, s, per),))) for s in range(nsh)]
            for x in asyncs:
                results.append((None, x.get()))
            for s, x in gen_async:
                results.append((s, x.get()))
            found_in = {}
            for s, (st_, payload) in results:
                if st_ != "ok":
                    print(payload)
                    print("HARNESS-ERROR: worker failed")
                    return 2
                for b in payload["buckets"]:
                    if s is not None and b not in found_in:
                        found_in[b] = s
                total.merge(payload)

            # ---- shrink new buckets (bounded)
            new_buckets = {b: info for b, info in total.buckets.items()
                           if not (info["known"] and info["known"] in known_ids)}
            for b, info in total.buckets.items():
                if info["known"] and info["known"] in known_ids:
                    known_seen.setdefault(info["known"], info["msg"])
            if new_buckets and not a.no_shrink:
                budget_s = 20 if a.tier == "quick" else 150
                order = sorted(new_buckets, key=lambda b: new_buckets[b]["size"])[:NPROC]
                sj = []
                for b in order:
                    if b in found_in:
                        sj.append(pool.apply_async(_shrink, ((pid, a.tier, seed, found_in[b], per, b,
                                                              new_buckets[b]["case"], budget_s),)))
                for x in sj:
                    r = x.get()
                    if r[0] == "ok":
                        new_buckets[r[1]]["case"] = r[2]
                        new_buckets[r[1]]["shrink_calls"] = r[3]
        for b, info in sorted(new_buckets.items()):
            path = write_replay(pid, b, info, seed, a.tier)
            violations.append((b, path, info["msg"]))
    except Exception:
        traceback.print_exc()
        print("HARNESS-ERROR: runner failed")
        return 2

    wall = time.time() - t0
    # ---- evidence
    try:
        from .common import jsonable
        enum_note = getattr(mod, "EXHAUSTIVE_NOTE", None)
        cov = dict(
            evaluations=int(total.evaluations + replay_info["regress"] + replay_info["known"]),
            distinct_nontrivial=int(len(total.nontrivial)),
            rule=mod.RULE,
            samples=jsonable(total.samples[:4]) or jsonable([{"note": "no non-trivial case generated"}]),
            generated=int(total.evaluations),
            elementary_evaluations=int(total.units),
            replays_regress=replay_info["regress"], replays_known=replay_info["known"],
            histogram={k: int(v) for k, v in sorted(total.hist.items())},
            discarded=int(total.discarded),
            excluded_by_construction={k: int(v) for k, v in total.excluded.items()},
            worst_residuals={k: float(v) for k, v in sorted(total.worst.items())},
            tolerances=getattr(mod, "TOLERANCES", {}),
            known_findings_reproduced=sorted(known_seen),
            failure_buckets={b: dict(count=i["count"], msg=i["msg"], known=i["known"]) for b, i in total.buckets.items()},
            trusted_base=["numpy", "scipy.sparse (SuperLU)", "hypothesis", "CPython"] + getattr(mod, "TRUSTED", []),
            processes=NPROC,
        )
        if enum_note:
            cov["exhaustive"] = True
            cov["exhaustive_subdomain"] = enum_note
        ev = dict(property_id=pid, tier=a.tier, seed=seed, level="exploration", coverage=cov,
                  assumptions=getattr(mod, "ASSUMPTIONS", []), wall_s=round(wall, 2),
                  violations=len(violations))
        schema = None
        for sp in SCHEMA_PATHS:
            if os.path.exists(sp):
                with open(sp) as fh:
                    schema = json.load(fh)
                break
        if schema is not None:
            import jsonschema
            jsonschema.validate(ev, schema)
        os.makedirs(os.path.join(OUT, "evidence"), exist_ok=True)
        with open(os.path.join(OUT, "evidence", f"{pid}.json"), "w") as fh:
            json.dump(ev, fh, indent=1, sort_keys=True)
    except Exception:
        traceback.print_exc()
        print("HARNESS-ERROR: evidence could not be written/validated")
        return 2

    for kid, msg in sorted(known_seen.items()):
        what = next((e.get("what", "") for e in known_entries if e["id"] == kid), "")
        print(f"KNOWN-FINDING: property={pid} {kid} {what} [{msg}]")
    print(f"{pid} {a.tier}: {total.evaluations} generated/enumerated cases, {len(total.nontrivial)} distinct non-trivial, "
          f"{replay_info['regress']}+{replay_info['known']} replays, discarded {total.discarded}, "
          f"excluded {dict(total.excluded)}, {wall:.1f}s")
    if violations:
        seen = set()
        for b, path, msg in violations:
            if (b, path) in seen:
                continue
            seen.add((b, path))
            print(f"  bucket {b}: {msg}")
            print(f"VIOLATION property={pid} replay={path}")
        return 1
    return 0


if __name__ == "__main__":
    sys.exit(main())
