from .common import Failure


class Result:
    """Outcome of checking one case."""

    def __init__(self):
        self.failures = []
        self.discarded = False     # numerically singular / ill-posed case: not a verdict
        self.excluded = []         # known-finding classes this case was steered away from (counted)
        self.worst = {}            # sub-oracle -> worst scaled residual seen (for the evidence)
        self.units = 1             # elementary evaluations inside this case (e.g. values of r)

    def fail(self, bucket, msg, mag=None, known=None):
        self.failures.append(Failure(bucket, msg, mag, known))

    def see(self, name, value):
        try:
            v = float(value)
        except Exception:
            return
        if v == v and v > self.worst.get(name, -1.0):
            self.worst[name] = v

    def expect_small(self, name, value, tol, bucket, msg, known=None):
        """record residual; fail if above tol (NaN/inf fail)."""
        v = float(value)
        self.see(name, v if v == v else float('inf'))
        if not (v <= tol):
            self.fail(bucket, f"{msg}: residual {v:.3e} > tol {tol:.1e}", v, known)
            return False
        return True
