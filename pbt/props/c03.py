"""C03  Reported boundary values satisfy the configured boundary conditions."""
import copy

import numpy as np
from hypothesis import strategies as st
from scipy.sparse.linalg import spsolve

import pyfvtool as pf

from .. import gen, oracle, problem
from ..common import (AXES, GRIDS, NDIM, SIDES, apply_bc, bc_shape, dims_of, full_shape, interior, is_periodic, make_grid,
                      mk_face, nonuniform)
from ..result import Result

ID = "C03"
TOL = 1e-9
TOLERANCES = {"Robin relation (scaled by the size of its terms)": TOL, "periodic wrap": "bitwise",
              "boundary rows applied to reported values": TOL, "scaling (a,b,c) by lambda": 1e-8}
RULE = ("Generated: grid (9 classes, N 1..4 / 1..3 in 3-D, all spacings) x per side Dirichlet / Neumann / Robin with face-wise "
        "varying a, b, c, per non-radial axis periodic with the lo, the hi or both flags set (p=0.3) x any interior field x "
        "D>0, u, scheme, dt; values are examined after each of: construction with the BC object passed in; construction with "
        "default BCs, then editing them, then apply_BCs(); solvePDE; solveExplicitPDE with an arbitrary RHS.  Oracle: "
        "independent ghost-cell reference (Robin relation with metric factor 1, r_c, r_c sin th_c; bitwise wrap on periodic axes "
        "and only there), plotprofile face entries, boundaryConditionsTerm rows applied to the reported array, raw solver output "
        "vs reported ghosts, invariance under scaling (a,b,c) of one side by lambda in {-1, 1e6, 1e-6, -3.7}.  "
        "Non-trivial = (>=1 Robin side with non-constant arrays, or a periodic axis next to a non-periodic one) and a "
        "non-constant interior field.  Distinct = SHA-1 of the canonical case.")
ASSUMPTIONS = ["Robin coefficients are generated well-posed (ghost equation non-singular), the only documented domain",
               "K2: on a periodic axis whose end cells differ in size the solver's periodic rows (gradient + face-value "
               "continuity) and the reported ghost values (copies) differ by exactly (1-d_end/d_1)(phi_first-phi_last) on the "
               "high-side rows; that residual and only that one is attributed to K2"]


@st.composite
def _case(draw):
    g = draw(gen.grids())
    name = g['name']
    d = dims_of(g['faces'])
    bc = draw(gen.bcs(name, d, p_periodic=0.3))
    faces = [list(f) for f in g['faces']]
    for ax, ent in enumerate(bc):
        if is_periodic(ent) and draw(st.booleans()):
            faces[ax] = problem.symmetric_ends(faces[ax])
    g = dict(g, faces=faces)
    P = dict(name=name, faces=faces, bc=bc, init=draw(gen.cell_interior(d)), D=draw(gen.diffusivity(d, zeros=False)),
             u=draw(gen.face_field(d)), scheme=draw(st.sampled_from(['none', 'central', 'upwind', 'tvd'])),
             FL=draw(gen.limiter_names), alpha=1.0, beta=None, gamma=draw(st.one_of(st.none(), gen.cell_interior(d))),
             dt=10.0 ** draw(st.floats(-3, 1)))
    rhs_seed = draw(st.integers(0, 2 ** 31 - 1))
    lam = draw(st.sampled_from([-1.0, 1e6, 1e-6, -3.7]))
    lam_ax = draw(st.integers(0, len(d) - 1))
    lam_side = draw(st.sampled_from(['lo', 'hi']))
    return dict(grid=g, P=P, rhs_seed=rhs_seed, lam=lam, lam_ax=lam_ax, lam_side=lam_side)


def strategy(tier):
    return _case()


# three cells per axis, non-uniform but with equal end cells (so that periodic axes are outside the K2 class)
ENUM_FACES = dict(x=[0.0, 0.3, 0.7, 1.0], r=[0.5, 0.8, 1.2, 1.5], thc=[0.0, 0.8, 1.7, 2.5], ths=[0.4, 0.9, 1.5, 2.0], ph=[0.0, 1.0, 1.5, 2.5])
EXHAUSTIVE_NOTE = ("every combination of boundary kind per side {D,N,R}^2 or periodic flag {lo,hi,both} per axis (periodic not on radial axes), "
                   "across all axes, on all 9 grid classes (fixed 3-cell-per-axis non-uniform grid with equal end cells, fixed face-wise varying coefficients)")


def _side(kind, shape, side, seed):
    v = lambda lo, hi, k: gen.expand('generic', seed + k, shape, lo, hi)
    if kind == 'D':
        a, b, c = np.zeros(shape), v(0.5, 2.0, 1), v(-1, 1, 0)
    elif kind == 'N':
        a, b, c = v(0.5, 2.0, 1) * (1.0 if side == 'hi' else -1.0), np.zeros(shape), v(-1, 1, 0)
    else:
        a, b, c = v(0.3, 2.0, 1) * (1.0 if side == 'hi' else -1.0), v(0.3, 2.0, 2), v(-1, 1, 0)
    return dict(kind=kind, a=a.tolist(), b=b.tolist(), c=c.tolist())


def enumerate_cases(tier):
    import itertools
    from ..common import face_shapes
    nonper = [(a, b) for a in 'DNR' for b in 'DNR']
    for name in GRIDS:
        kinds = AXES[name]
        faces = [ENUM_FACES[k] for k in kinds]
        d = dims_of(faces)
        opts = []
        for k in kinds:
            o = [('none', lo, hi) for lo, hi in nonper]
            if k != 'r':
                o += [(p, 'N', 'N') for p in ('lo', 'hi', 'both')]
            opts.append(o)
        for n, combo in enumerate(itertools.product(*opts)):
            bc = []
            for ax, (per, lo, hi) in enumerate(combo):
                shp = bc_shape(d, ax)
                bc.append(dict(periodic=per, lo=_side(lo, shp, 'lo', 10 * ax + 1), hi=_side(hi, shp, 'hi', 10 * ax + 5)))
            P = dict(name=name, faces=faces, bc=bc, init=gen.expand('generic', 3, d).tolist(),
                     D=[np.full(sh, 0.7).tolist() for sh in face_shapes(d)], u=[gen.expand('generic', 20 + i, sh).tolist() for i, sh in enumerate(face_shapes(d))],
                     scheme=('none', 'central', 'upwind')[n % 3], FL='SUPERBEE', alpha=1.0, beta=None, gamma=None, dt=0.3)
            yield dict(grid=dict(name=name, faces=faces, spacing=['random'] * len(kinds)), P=P, rhs_seed=5, lam=(-1.0, 1e6, 1e-6, -3.7)[n % 4],
                       lam_ax=n % len(kinds), lam_side=('lo', 'hi')[(n // 2) % 2], enumerated=True)


def budget(tier):
    return 2500 if tier == "quick" else 100000


def _kinds(case):
    out = []
    for ent in case['P']['bc']:
        if is_periodic(ent):
            out.append('P' + ent['periodic'][0])
        else:
            out.append(ent['lo']['kind'] + ent['hi']['kind'])
    return out


def classify(case):
    g = case['grid']
    d = dims_of(g['faces'])
    return dict(grid=g['name'], N="x".join(map(str, d)), nonuniform=nonuniform(g['faces']), bc="|".join(_kinds(case)),
                scheme=case['P']['scheme'])


def nontrivial(case):
    P = case['P']
    f = np.array(P['init'])
    if f.max() == f.min():
        return False
    per = [is_periodic(e) for e in P['bc']]
    mixed = any(per) and not all(per)
    robin = False
    for e in P['bc']:
        if is_periodic(e):
            continue
        for s in ('lo', 'hi'):
            if e[s]['kind'] == 'R':
                a = np.array(e[s]['a'])
                if a.size > 1 and a.max() != a.min():
                    robin = True
    return mixed or robin


def _slab(nd, ax, idx):
    s = [slice(1, -1)] * nd
    s[ax] = idx
    return tuple(s)


def _check_full(res, geo, name, bc, full, where, d):
    """ghost layer of `full` against the reference relation"""
    nd = len(d)
    full = np.asarray(full, float)
    if full.shape != full_shape(d):
        res.fail(f"shape:{where}", f"full value array has shape {full.shape} after {where}")
        return
    inner = full[tuple(slice(1, -1) for _ in d)]
    for ax in range(nd):
        ent = bc[ax]
        if is_periodic(ent):
            lo_ok = np.array_equal(full[_slab(nd, ax, 0)], np.take(inner, -1, axis=ax))
            hi_ok = np.array_equal(full[_slab(nd, ax, -1)], np.take(inner, 0, axis=ax))
            if not (lo_ok and hi_ok):
                res.fail(f"periodic-wrap:{name}:ax{ax}", f"after {where}: ghost cells of periodic axis {ax} ({ent['periodic']} flag) "
                         f"are not the opposite interior cells on {name}")
    for ax, side, r in oracle.bc_residual(geo, full, bc):
        res.expect_small("robin", r, TOL, f"robin:{name}:ax{ax}{side}",
                         f"after {where}: ghost/inner values across the {side} face of axis {ax} violate a*dphi/dn+b*phi=c on {name} "
                         f"(periodic flags {[e.get('periodic') for e in bc]})")


def _check_profile(res, name, phi, bc, d):
    prof = phi.plotprofile()
    vals = np.asarray(prof[-1], float)
    full = np.asarray(phi._value, float)
    nd = len(d)
    if nd == 1:
        want_lo, want_hi = 0.5 * (full[0] + full[1]), 0.5 * (full[-1] + full[-2])
        ok = vals.shape == (d[0] + 2,) and abs(vals[0] - want_lo) <= 1e-14 * (abs(want_lo) + 1e-300) + 0 and \
            abs(vals[-1] - want_hi) <= 1e-14 * (abs(want_hi) + 1e-300) and np.array_equal(vals[1:-1], full[1:-1])
        if not ok:
            res.fail(f"plotprofile:{name}", f"plotprofile boundary entries are not the ghost/inner face average on {name}")
    else:
        if vals.shape != full.shape:
            res.fail(f"plotprofile:{name}", f"plotprofile value array has shape {vals.shape}")
            return
        for ax in range(nd):
            for gi, ii in ((0, 1), (-1, -2)):
                want = 0.5 * (full[_slab(nd, ax, gi)] + full[_slab(nd, ax, ii)])
                got = vals[_slab(nd, ax, gi)]
                sc = np.abs(want).max() + 1e-300
                if np.abs(got - want).max() > 1e-14 * sc:
                    res.fail(f"plotprofile:{name}", f"plotprofile face entries of axis {ax} are not (ghost+inner)/2 on {name}")
    # Dirichlet faces: boundary value c/b
    for ax, ent in enumerate(bc):
        if is_periodic(ent):
            continue
        for side, gi in (('lo', 0), ('hi', -1)):
            if ent[side]['kind'] != 'D':
                continue
            c = np.array(ent[side]['c'], float)
            b = np.array(ent[side]['b'], float)
            want = (c / b).reshape(bc_shape(d, ax)) if nd > 1 else (c / b).reshape(())
            got = vals[_slab(nd, ax, gi)] if nd > 1 else vals[gi]
            sc = np.abs(want).max() + 1e-300
            res.expect_small("dirichlet-profile", float(np.abs(np.asarray(got) - want).max() / max(sc, 1e-3)), 1e-9,
                             f"dirichlet-profile:{name}:ax{ax}{side}", f"plotprofile value on a Dirichlet face != c/b on {name}")


def _check_rows(res, geo, name, phi, bc, d, where):
    """boundaryConditionsTerm rows applied to the reported array reproduce the boundary RHS"""
    M, rhs = pf.boundaryConditionsTerm(phi.BCs)
    x = np.asarray(phi._value, float).ravel()
    r = M @ x - rhs
    sc = abs(M) @ np.abs(x) + np.abs(rhs)
    sc = np.where(sc == 0, 1.0, sc)
    R = (r / sc).reshape(full_shape(d))
    r = r.reshape(full_shape(d))
    nd = len(d)
    inner = np.asarray(phi.value, float)
    if np.abs(R[tuple(slice(1, -1) for _ in d)]).max() > 0:
        res.fail(f"bcterm-interior-rows:{name}", "boundaryConditionsTerm has entries in interior rows")
    for ax in range(nd):
        for side, gi in (('lo', 0), ('hi', -1)):
            rr = R[_slab(nd, ax, gi)]
            e = float(np.abs(rr).max())
            if is_periodic(bc[ax]):
                s = geo.w[ax][-1] / geo.w[ax][0]
                if abs(s - 1.0) > 1e-12:
                    # K2: expected residual of the hi row with copied ghosts: (1-s)(phi_first - phi_last); lo row: 0
                    first, last = np.take(inner, 0, axis=ax), np.take(inner, -1, axis=ax)
                    want = (1 - s) * (first - last) if side == 'hi' else np.zeros_like(first)
                    raw = r[_slab(nd, ax, gi)]
                    scl = np.abs(first).max() + np.abs(last).max() + 1e-300
                    dev = float(np.abs(raw - want).max() / scl)
                    if dev > 1e-9:
                        res.fail(f"rows-periodic:{name}:ax{ax}{side}", f"after {where}: periodic rows of axis {ax} applied to the reported "
                                 f"values leave a residual other than the K2 one on {name}", dev)
                    elif side == 'hi' and np.abs(want).max() > 1e-9 * scl:
                        res.fail(f"K2:{name}", f"periodic axis {ax} with unequal end cells (ratio {s:.3g}): solver rows and reported "
                                 f"ghost copies disagree by (1-s)(phi_first-phi_last)", float(np.abs(want).max() / scl), known="K2")
                    continue
            res.expect_small("rows", e, TOL, f"rows:{name}:ax{ax}{side}",
                             f"after {where}: boundaryConditionsTerm rows ({side} side of axis {ax}) applied to the reported values "
                             f"do not give the boundary RHS on {name}")


def check(case):
    res = Result()
    P = case['P']
    name = P['name']
    d = dims_of(P['faces'])
    nd = len(d)
    geo = oracle.Geometry(name, P['faces'])
    bc = P['bc']
    # (1) construction with BCs passed in
    m, BC, phi = problem.build_var(P)
    _check_full(res, geo, name, bc, phi._value, "construction", d)
    _check_profile(res, name, phi, bc, d)
    _check_rows(res, geo, name, phi, bc, d, "construction")
    # (2) default construction, edit, apply_BCs
    phi2 = pf.CellVariable(m, np.array(P['init'], float))
    apply_bc(phi2.BCs, bc)
    phi2.apply_BCs()
    _check_full(res, geo, name, bc, phi2._value, "edit+apply_BCs", d)
    if not np.array_equal(np.asarray(phi2._value), np.asarray(phi._value)):
        res.fail(f"construct-vs-edit:{name}", f"BCs passed at construction and BCs edited afterwards give different ghost values on {name}")
    # (4) explicit step with arbitrary RHS
    rhs = gen.expand('generic', case['rhs_seed'], (int(np.prod(full_shape(d))),))
    phi4 = pf.solveExplicitPDE(phi, 0.05, rhs)
    _check_full(res, geo, name, bc, phi4._value, "solveExplicitPDE", d)
    want = np.asarray(phi.value) + 0.05 * interior(d, rhs)
    if not np.allclose(np.asarray(phi4.value), want, rtol=0, atol=1e-15 * (np.abs(want).max() + 1)):
        res.fail(f"explicit-interior:{name}", "solveExplicitPDE interior != old + dt*RHS")
    # (3) solvePDE, with the raw solver output recorded
    raw = {}

    def rec(M, b):
        raw['M'], raw['b'] = M.copy(), b.copy()
        raw['x'] = spsolve(M, b)
        return raw['x']
    tl = [pf.transientTerm(phi, P['dt'], 1.0)] + problem.spatial_terms(m, P, phi)
    out = pf.solvePDE(phi, tl, externalsolver=rec)
    full = np.asarray(phi._value, float)
    if not np.all(np.isfinite(full)):
        res.discarded = True
        return res
    _check_full(res, geo, name, bc, full, "solvePDE", d)
    _check_profile(res, name, phi, bc, d)
    _check_rows(res, geo, name, phi, bc, d, "solvePDE")
    # raw solver ghost values == reported ghost values (mutual consistency), non-corner ghost cells
    rx = np.asarray(raw['x'], float).reshape(full_shape(d))
    sc = np.abs(full).max() + 1e-300
    for ax in range(nd):
        if is_periodic(bc[ax]) and abs(geo.w[ax][-1] / geo.w[ax][0] - 1.0) > 1e-12:
            res.excluded.append('K2')
            continue
        for gi in (0, -1):
            e = float(np.abs(rx[_slab(nd, ax, gi)] - full[_slab(nd, ax, gi)]).max() / sc)
            res.expect_small("solver-vs-reported", e, 1e-8, f"solver-vs-reported:{name}:ax{ax}",
                             f"ghost values in the solver's solution differ from the reported ones on axis {ax} of {name}")
    # (3b) time-dependent boundary data: on the (now clean) variable ONLY the data c are re-assigned, through the property
    # setter, and the variable is solved again: the solver's rows, its raw ghost values and the reported ones must all
    # reflect the new data
    bc_t = copy.deepcopy(bc)
    for ax in range(nd):
        for sd, nm in zip(('lo', 'hi'), SIDES[ax]):
            newc = 2.0 * np.array(bc[ax][sd]['c'], float) + 0.3
            bc_t[ax][sd]['c'] = newc.tolist()
            f = getattr(phi.BCs, nm)
            f.c = newc.reshape(f.c.shape)
    tl_t = [pf.transientTerm(phi, P['dt'], 1.0)] + problem.spatial_terms(m, dict(P, scheme='upwind' if P['scheme'] == 'tvd' else P['scheme']))
    pf.solvePDE(phi, tl_t, externalsolver=rec)
    full_t = np.asarray(phi._value, float)
    if np.all(np.isfinite(full_t)):
        _check_full(res, geo, name, bc_t, full_t, "solvePDE after re-assigning c", d)
        _check_rows(res, geo, name, phi, bc_t, d, "solvePDE after re-assigning c")
        rx = np.asarray(raw['x'], float).reshape(full_shape(d))
        sct = np.abs(full_t).max() + 1e-300
        for ax in range(nd):
            if is_periodic(bc[ax]) and abs(geo.w[ax][-1] / geo.w[ax][0] - 1.0) > 1e-12:
                continue
            for gi in (0, -1):
                e = float(np.abs(rx[_slab(nd, ax, gi)] - full_t[_slab(nd, ax, gi)]).max() / sct)
                res.expect_small("solver-vs-reported-c", e, 1e-8, f"solver-vs-reported-after-c:{name}:ax{ax}",
                                 f"after re-assigning only c: ghost values in the solver's solution differ from the reported ones on axis {ax} of {name}")
    # two variables on ONE boundary-condition object, conditions edited after both exist, apply_BCs() on each, then a solve of
    # the second: its reported values and the solver's rows must both reflect the edited conditions
    # (without the second variable's own apply_BCs this would be the known finding K3 of C09; with it, it must work)
    BCs = pf.BoundaryConditions(m)
    v1 = pf.CellVariable(m, np.array(P['init'], float), BCs)
    v2 = pf.CellVariable(m, np.array(P['init'], float)[tuple(slice(None, None, -1) for _ in d)].copy(), BCs)
    apply_bc(BCs, bc)
    v1.apply_BCs()
    v2.apply_BCs()
    tl_s = [pf.transientTerm(v2, P['dt'], 1.0)] + problem.spatial_terms(m, dict(P, scheme='upwind' if P['scheme'] == 'tvd' else P['scheme']))
    fresh = pf.CellVariable(m, np.array(v2.value, float), apply_bc(pf.BoundaryConditions(m), bc))
    tl_f = [pf.transientTerm(fresh, P['dt'], 1.0)] + problem.spatial_terms(m, dict(P, scheme='upwind' if P['scheme'] == 'tvd' else P['scheme']))
    pf.solvePDE(v2, tl_s)
    pf.solvePDE(fresh, tl_f)
    fv2, ffr = np.asarray(v2._value, float), np.asarray(fresh._value, float)
    if np.all(np.isfinite(fv2)) and np.all(np.isfinite(ffr)):
        _check_full(res, geo, name, bc, fv2, "solvePDE (shared BC object, edited, applied)", d)
        res.expect_small("shared-vs-fresh", float(np.abs(fv2 - ffr).max() / (np.abs(ffr).max() + 1e-300)), 1e-9, f"shared-vs-fresh:{name}",
                         f"variable sharing its (edited, re-applied) BC object solves differently from a fresh variable with the same conditions on {name}")
    # scaling (a,b,c) of one side by lambda changes nothing
    Q = copy.deepcopy(P)
    ent = Q['bc'][case['lam_ax']]
    for k in 'abc':
        ent[case['lam_side']][k] = (np.array(ent[case['lam_side']][k], float) * case['lam']).tolist()
    m2, BC2, ph = problem.build_var(Q)
    tl2 = [pf.transientTerm(ph, P['dt'], 1.0)] + problem.spatial_terms(m2, Q, ph)
    pf.solvePDE(ph, tl2)
    f2 = np.asarray(ph._value, float)
    if np.all(np.isfinite(f2)):
        res.expect_small("lambda-scaling", float(np.abs(f2 - full).max() / sc), 1e-8, f"lambda-scaling:{name}",
                         f"multiplying (a,b,c) of the {case['lam_side']} side of axis {case['lam_ax']} by {case['lam']} changed the "
                         f"solution or its ghost values on {name}")
    else:
        res.discarded = True
    return res
