"""C15  Assembly is pure and deterministic: builders never modify their inputs."""
import numpy as np
from hypothesis import strategies as st
from scipy.sparse import issparse

import pyfvtool as pf

from .. import gen, problem
from ..common import (AXES, GRIDS, apply_bc, dims_of, face_shapes, full_shape, interior, is_periodic, make_grid, mk_face)
from ..result import Result
from .c14 import FACES6, snap_cell

ID = "C15"
NO_INT_DTYPE = True     # the harness edits coefficient arrays in place with non-integral factors
TOLERANCES = {"everything": "byte equality of snapshots; bit-identical repeated results; np.shares_memory == False"}
RULE = ("Generated: grid (9 classes, N 1..3 / 1..2 in 3-D, all spacings) x BCs (D/N/R/periodic) x fields (phi, D, u with mixed signs "
        "and zeros, direction field, alpha/beta/gamma cell fields) x limiter.  For every public builder/solver (diffusionTerm, "
        "convectionTerm, convectionUpwindTerm 1- and 2-argument, convectionTVDupwindRHSTerm 3- and 4-argument, linearSourceTerm, "
        "constantSourceTerm, transientTerm scalar/cell alpha, gradientTerm, gradientTermFixedBC, divergenceTerm, linearMean, "
        "arithmeticMean, geometricMean, harmonicMean, upwindMean, boundaryConditionsTerm, cellLocations, faceLocations, "
        "plotprofile, domainIntegral, solvePDE, solveMatrixPDE, solveExplicitPDE): byte snapshot of mesh arrays, all FaceVariable "
        "components, full cell arrays, BC arrays and flags, cached boundary term, term objects before / after; two calls "
        "bit-identical; returned arrays share no memory with inputs or mesh; an in-place edit of the returned object leaves "
        "the snapshot unchanged; a builder called again after an in-place edit of its input equals the builder on fresh objects (no "
        "stale memoisation); a k-step time loop reusing the same term objects equals the loop rebuilding them.  "
        "Non-trivial = velocities with mixed signs (masked-write paths), non-default BCs, >= 2 repeated calls (always).  "
        "Distinct = SHA-1 of the canonical case.")
ASSUMPTIONS = ["solveExplicitPDE on an input whose values/BCs were edited may refresh that input's ghost layer (documented in its code path); nothing else may change"]


@st.composite
def _case(draw):
    g = draw(gen.grids(nmax=3, nmax3=2))
    name = g['name']
    d = dims_of(g['faces'])
    return dict(grid=g, bc=draw(gen.bcs(name, d)), init=draw(gen.cell_interior(d, styles=('generic', 'pos', 'int'))),
                D=draw(gen.diffusivity(d, zeros=False)), u=draw(gen.face_field(d)), w=draw(gen.face_field(d, styles=('generic', 'pos', 'neg'))),
                alpha=draw(gen.arrays(d, styles=('pos',), lo=0.2, hi=2.0, direct=False)),
                beta=draw(gen.arrays(d, styles=('pos',), lo=0.1, hi=2.0, direct=False)), gamma=draw(gen.cell_interior(d)),
                FL=draw(gen.limiter_names), steps=draw(st.integers(2, 4)), dirty=draw(st.sampled_from(['clean', 'value', 'bc'])),
                zseed=draw(st.integers(0, 2 ** 31 - 1)),
                form=draw(st.sampled_from(['faces', 'NL'])))


def strategy(tier):
    return _case()


def budget(tier):
    return 700 if tier == "quick" else 35000


def classify(case):
    g = case['grid']
    return dict(grid=g['name'], N="x".join(map(str, dims_of(g['faces']))), dirty=case['dirty'], form=case['form'])


def nontrivial(case):
    mixed = any((np.array(c) > 0).any() and (np.array(c) < 0).any() for c in case['u'])
    nd = any(is_periodic(e) or any(e[s]['kind'] != 'N' for s in ('lo', 'hi')) for e in case['bc'])
    return mixed and nd


def arrays_of(obj):
    if obj is None or isinstance(obj, (float, int, np.floating, np.integer, str, bool)):
        return []
    if issparse(obj):
        return [obj.data, obj.indices, obj.indptr]
    if isinstance(obj, np.ndarray):
        return [obj]
    if isinstance(obj, pf.FaceVariable):
        return [np.asarray(c) for c in (obj._xvalue, obj._yvalue, obj._zvalue)]
    if isinstance(obj, pf.CellVariable):
        out = [obj._value]
        for f in FACES6:
            bf = getattr(obj.BCs, f)
            out += [bf._a, bf._b, bf._c]
        return out
    if isinstance(obj, (tuple, list)):
        out = []
        for o in obj:
            out += arrays_of(o)
        return out
    return []


def content(obj):
    """hashable content of a result for bit-identity comparison"""
    if issparse(obj):
        c = obj.tocsr().copy()
        c.sum_duplicates()
        c.sort_indices()
        return ('csr', c.shape, c.data.tobytes(), c.indices.tobytes(), c.indptr.tobytes())
    if isinstance(obj, (tuple, list)):
        return tuple(content(o) for o in obj)
    if isinstance(obj, (pf.FaceVariable, pf.CellVariable)):
        return tuple((a.shape, np.ascontiguousarray(a).tobytes()) for a in arrays_of(obj))
    if isinstance(obj, np.ndarray):
        return (obj.shape, str(obj.dtype), np.ascontiguousarray(obj).tobytes())
    if isinstance(obj, (float, np.floating)):
        return float(obj).hex()
    return repr(obj)


class World:
    def __init__(self, case):
        g = case['grid']
        self.name = g['name']
        faces = [np.array(f, float) for f in g['faces']]
        d = self.d = dims_of(faces)
        if case['form'] == 'NL' and all(np.allclose(np.diff(f), np.diff(f)[0]) and f[0] == 0 for f in faces):
            self.m = getattr(pf, self.name)(*[int(n) for n in d], *[float(f[-1]) for f in faces])
        else:
            self.m = getattr(pf, self.name)(*faces)
        m = self.m
        self.BC = apply_bc(pf.BoundaryConditions(m), case['bc'])
        self.phi = pf.CellVariable(m, np.array(case['init'], float), self.BC)
        self.phi.apply_BCs()      # 'clean' means: dirty bits of values and of the (just edited) BC object are reset
        if case['dirty'] == 'value':
            self.phi.value[...] = np.array(case['init'], float) * 1.5
        elif case['dirty'] == 'bc':
            self.phi.BCs.right.c[:] = np.asarray(self.phi.BCs.right.c) + 0.5
        self.D = mk_face(m, case['D'])
        self.u = mk_face(m, case['u'])
        self.w = mk_face(m, case['w'])
        self.alpha = pf.CellVariable(m, np.array(case['alpha'], float))
        self.beta = pf.CellVariable(m, np.array(case['beta'], float))
        self.gamma = pf.CellVariable(m, np.array(case['gamma'], float))
        # non-negative coefficient with exact zeros (also in the ghost layer): the zero-handling branches of the means
        z = np.abs(gen.expand('zeros', case.get('zseed', 1), full_shape(d)))
        z[gen.expand('generic', case.get('zseed', 1) + 1, full_shape(d)) > 0.6] = 0.0
        self.zcell = pf.CellVariable(m, z)
        self.FL = pf.fluxLimiter(case['FL'])

    def mesh_arrays(self):
        m = self.m
        out = [np.asarray(m.dims)]
        for o in (m.cellsize, m.cellcenters, m.facecenters):
            out += [o._x, o._y, o._z]
        out += [np.asarray(m.corners), np.asarray(m.edges)]
        return out

    def input_arrays(self):
        out = self.mesh_arrays()
        for fv in (self.D, self.u, self.w):
            out += arrays_of(fv)
        for cv in (self.phi, self.alpha, self.beta, self.gamma, self.zcell):
            out += arrays_of(cv)
        return out

    def snapshot(self, skip_phi_values=False):
        out = [np.ascontiguousarray(a).tobytes() for a in self.mesh_arrays()]
        for fv in (self.D, self.u, self.w):
            out += [np.ascontiguousarray(a).tobytes() for a in arrays_of(fv)]
        for cv in (self.alpha, self.beta, self.gamma, self.zcell):
            out += snap_cell(cv)
        if skip_phi_values:
            # values / ghost layer / dirty bits of phi may legitimately change; its BC data may not
            from .c14 import bc_content
            out += bc_content(self.phi.BCs)
        else:
            out += snap_cell(self.phi)
        if not skip_phi_values and hasattr(self.phi, '_BCsTerm'):
            out.append(content(self.phi._BCsTerm))
        return out


def check(case):
    res = Result()
    W = World(case)
    name = W.name
    m, phi, D, u, w = W.m, W.phi, W.D, W.u, W.w
    builders = [
        ("diffusionTerm", lambda: pf.diffusionTerm(D)),
        ("convectionTerm", lambda: pf.convectionTerm(u)),
        ("convectionUpwindTerm", lambda: pf.convectionUpwindTerm(u)),
        ("convectionUpwindTerm2", lambda: pf.convectionUpwindTerm(u, w)),
        ("convectionTVDupwindRHSTerm", lambda: pf.convectionTVDupwindRHSTerm(u, phi, W.FL)),
        ("convectionTVDupwindRHSTerm2", lambda: pf.convectionTVDupwindRHSTerm(u, phi, W.FL, w)),
        ("linearSourceTerm", lambda: pf.linearSourceTerm(W.beta)),
        ("constantSourceTerm", lambda: pf.constantSourceTerm(W.gamma)),
        ("transientTerm-scalar", lambda: pf.transientTerm(phi, 0.3, 1.7)),
        ("transientTerm-cell", lambda: pf.transientTerm(phi, 0.3, W.alpha)),
        ("gradientTerm", lambda: pf.gradientTerm(phi)),
        ("gradientTermFixedBC", lambda: pf.gradientTermFixedBC(phi)),
        ("divergenceTerm", lambda: pf.divergenceTerm(u)),
        ("linearMean", lambda: pf.linearMean(phi)),
        ("arithmeticMean", lambda: pf.arithmeticMean(W.beta)),
        ("geometricMean", lambda: pf.geometricMean(W.beta)),
        ("harmonicMean", lambda: pf.harmonicMean(W.beta)),
        ("upwindMean", lambda: pf.upwindMean(phi, u)),
        ("arithmeticMean-zeros", lambda: pf.arithmeticMean(W.zcell)),
        ("geometricMean-zeros", lambda: pf.geometricMean(W.zcell)),
        ("harmonicMean-zeros", lambda: pf.harmonicMean(W.zcell)),
        ("linearMean-zeros", lambda: pf.linearMean(W.zcell)),
        ("boundaryConditionsTerm", lambda: pf.boundaryConditionsTerm(phi.BCs)),
        ("cellLocations", lambda: pf.cellLocations(m)),
        ("faceLocations", lambda: pf.faceLocations(m)),
        ("plotprofile", lambda: phi.plotprofile()),
        ("domainIntegral", lambda: phi.domainIntegral()),
        ("cellvolume", lambda: m.cellvolume),
    ]
    for nm, fn in builders:
        before = W.snapshot()
        with np.errstate(all='ignore'):
            r1 = fn()
            mid = W.snapshot()
            r2 = fn()
        if mid != before:
            res.fail(f"mutates-input:{nm}", f"{nm} modified one of its inputs or the mesh on {name}")
            continue
        if content(r1) != content(r2):
            res.fail(f"nondeterministic:{nm}", f"two calls of {nm} with equal inputs are not bit-identical on {name}")
        ins = [a for a in W.input_arrays() if isinstance(a, np.ndarray) and a.size]
        shared = False
        for a in arrays_of(r1):
            if isinstance(a, np.ndarray) and a.size:
                for b in ins:
                    if np.shares_memory(a, b):
                        shared = True
        if shared:
            res.fail(f"aliases-input:{nm}", f"the object returned by {nm} shares memory with an input or with mesh storage on {name}")
        # in-place edit of the returned object must not reach the inputs
        for a in arrays_of(r1):
            if isinstance(a, np.ndarray) and a.size and a.flags.writeable and a.dtype.kind == 'f':
                a += 1.0
        if W.snapshot() != before:
            res.fail(f"edit-reaches-input:{nm}", f"editing the object returned by {nm} in place changed an input or the mesh on {name}")
            W = World(case)
            m, phi, D, u, w = W.m, W.phi, W.D, W.u, W.w
            return res

    # ---- freshness: a builder called again after an in-place edit of its input must reflect the new values (no result
    # memoised on the identity of the input object); compared bit for bit with the same builder on freshly made objects
    W = World(case)
    m, phi, D, u, w = W.m, W.phi, W.D, W.u, W.w
    Wf = World(case)

    def scale_face(fv, f):
        for c in (fv._xvalue, fv._yvalue, fv._zvalue):
            if np.asarray(c).size:
                c *= f
    fresh_pairs = [
        ("diffusionTerm", lambda X: pf.diffusionTerm(X.D), lambda X: scale_face(X.D, 2.0)),
        ("convectionTerm", lambda X: pf.convectionTerm(X.u), lambda X: scale_face(X.u, -3.0)),
        ("convectionUpwindTerm", lambda X: pf.convectionUpwindTerm(X.u), lambda X: scale_face(X.u, -0.5)),
        ("convectionTVDupwindRHSTerm", lambda X: pf.convectionTVDupwindRHSTerm(X.u, X.phi, X.FL), lambda X: X.phi.value.__setitem__(Ellipsis, np.asarray(X.phi.value) ** 2)),
        ("linearSourceTerm", lambda X: pf.linearSourceTerm(X.beta), lambda X: X.beta.value.__setitem__(Ellipsis, np.asarray(X.beta.value) + 1.0)),
        ("constantSourceTerm", lambda X: pf.constantSourceTerm(X.gamma), lambda X: X.gamma.value.__setitem__(Ellipsis, np.asarray(X.gamma.value) * 3.0)),
        ("transientTerm-alpha", lambda X: pf.transientTerm(X.phi, 0.3, X.alpha), lambda X: X.alpha.value.__setitem__(Ellipsis, np.asarray(X.alpha.value) * 1.5)),
        ("transientTerm-phi", lambda X: pf.transientTerm(X.phi, 0.3, X.alpha), lambda X: X.phi.value.__setitem__(Ellipsis, np.asarray(X.phi.value) + 2.0)),
        ("gradientTerm", lambda X: (X.phi.apply_BCs(), pf.gradientTerm(X.phi))[1], lambda X: X.phi.value.__setitem__(Ellipsis, np.asarray(X.phi.value) * 0.5)),
        ("linearMean", lambda X: (X.phi.apply_BCs(), pf.linearMean(X.phi))[1], lambda X: X.phi.value.__setitem__(Ellipsis, np.asarray(X.phi.value) - 1.0)),
        ("divergenceTerm", lambda X: pf.divergenceTerm(X.u), lambda X: scale_face(X.u, 2.0)),
        ("boundaryConditionsTerm", lambda X: pf.boundaryConditionsTerm(X.phi.BCs), lambda X: X.phi.BCs.right.c.__setitem__(Ellipsis, np.asarray(X.phi.BCs.right.c) + 1.0)),
    ]
    for nm, fn, edit in fresh_pairs:
        with np.errstate(all='ignore'):
            fn(W)                      # first call (would fill a cache)
            edit(W)
            edit(Wf)
            r_again = fn(W)
            r_fresh = fn(Wf)
        if content(r_again) != content(r_fresh):
            res.fail(f"stale-result:{nm}", f"{nm} called again after an in-place edit of its input does not reflect the new values on {name}")
    W = World(case)
    m, phi, D, u, w = W.m, W.phi, W.D, W.u, W.w

    # ---- solvers
    def terms():
        return [pf.transientTerm(phi, 0.2, W.alpha), -pf.diffusionTerm(D), pf.convectionUpwindTerm(u),
                pf.linearSourceTerm(W.beta), pf.constantSourceTerm(W.gamma)]
    # solveMatrixPDE
    Mb, vb = pf.boundaryConditionsTerm(phi.BCs)
    M = Mb + pf.linearSourceTerm(W.beta) - pf.diffusionTerm(D)
    v = vb + pf.constantSourceTerm(W.gamma)
    before = W.snapshot()
    cM, cv = content(M), content(v)
    s1 = pf.solveMatrixPDE(m, M, v)
    s2 = pf.solveMatrixPDE(m, M, v)
    if W.snapshot() != before or content(M) != cM or content(v) != cv:
        res.fail("mutates-input:solveMatrixPDE", f"solveMatrixPDE modified something it was given on {name}")
    if content(s1) != content(s2):
        res.fail("nondeterministic:solveMatrixPDE", f"solveMatrixPDE not bit-reproducible on {name}")
    # solveExplicitPDE
    rhs = pf.divergenceTerm(D * pf.gradientTerm(phi))
    crhs = content(rhs)
    before = W.snapshot(skip_phi_values=(case['dirty'] != 'clean'))
    interior_before = np.array(phi.value, copy=True)
    e1 = pf.solveExplicitPDE(phi, 1e-3, rhs)
    e2 = pf.solveExplicitPDE(phi, 1e-3, rhs)
    if W.snapshot(skip_phi_values=(case['dirty'] != 'clean')) != before or content(rhs) != crhs or \
            not np.array_equal(np.asarray(phi.value), interior_before):
        res.fail("mutates-input:solveExplicitPDE", f"solveExplicitPDE modified its input variable, RHS or the mesh on {name} (input {case['dirty']})")
    if content(e1._value) != content(e2._value):
        res.fail("nondeterministic:solveExplicitPDE", f"solveExplicitPDE not bit-reproducible on {name}")
    if np.shares_memory(e1._value, phi._value):
        res.fail("aliases-input:solveExplicitPDE", "solveExplicitPDE result shares memory with its input")
    # solvePDE: modifies only phi; terms reusable
    W1, W2 = World(case), World(case)
    for Wx in (W1, W2):
        Wx.phi.apply_BCs()

    def mk(Wx):
        return [pf.transientTerm(Wx.phi, 0.2, Wx.alpha), -pf.diffusionTerm(Wx.D), pf.convectionUpwindTerm(Wx.u),
                pf.linearSourceTerm(Wx.beta), pf.constantSourceTerm(Wx.gamma)]
    # (a) purity of one solve
    tl = mk(W1)
    ct = content(tl)
    before = W1.snapshot(skip_phi_values=True)
    pf.solvePDE(W1.phi, tl)
    if content(tl) != ct:
        res.fail("mutates-terms:solvePDE", f"solvePDE modified the term objects it was given on {name}")
    if W1.snapshot(skip_phi_values=True) != before:
        res.fail("mutates-input:solvePDE", f"solvePDE modified something other than its solution variable on {name}")
    # (b) time loop: spatial terms built once and reused == rebuilt every step
    Wa, Wb = World(case), World(case)
    spatial = [-pf.diffusionTerm(Wa.D), pf.convectionUpwindTerm(Wa.u), pf.linearSourceTerm(Wa.beta), pf.constantSourceTerm(Wa.gamma)]
    for k in range(case['steps']):
        pf.solvePDE(Wa.phi, [pf.transientTerm(Wa.phi, 0.2, Wa.alpha)] + spatial)
        pf.solvePDE(Wb.phi, mk(Wb))
        if content(np.asarray(Wa.phi._value)) != content(np.asarray(Wb.phi._value)):
            res.fail("term-reuse:solvePDE", f"time loop reusing term objects diverges from the loop rebuilding them at step {k + 1} on {name}")
            break
    return res
