"""C02  Solutions converge to the exact solution of the documented PDE on every grid (manufactured solutions)."""
import math

import numpy as np
from hypothesis import strategies as st

import pyfvtool as pf

from .. import gen, msol
from ..common import AXES, GRIDS, NDIM, SIDES, bc_shape, make_grid, mk_face
from ..result import Result

ID = "C02"
TOLERANCES = {"acceptance": "error at rounding level (<=1e-11 relative), or average observed order over the ladder >= p0-0.45 (3-D: p0-0.6), or order on "
                            "the finest pair >= p0-0.25 (3-D: p0-0.4); otherwise escalate (finer ladder) and decide there",
              "p0": "2 (diffusion, central advection, sources, dt ~ h^2), 1 (upwind)",
              "inconclusive": "an undecided steady case whose discrete problem amplifies errors by >= 30 (max row sum of |M^-1| over the PDE rows on the two "
                              "coarsest levels) is discarded and counted; orders still rising by >= 0.2 per doubling on the finest pair are judged with margin 0.5"}
RULE = ("Error norm: max norm at cell centres; volume-weighted RMS norm when the axis r = 0 is part of the domain.  Generated: grid class (9) x spacing per axis {uniform, smooth grading x=a+L(s+g s(1-s)), |g|<=0.45} x radial origin {0, offset} x "
        "boundary kind per side {Dirichlet, Neumann, Robin} x term set {diffusion, +central, +upwind, +linear source, +transient (1-D/2-D)} x "
        "a parametric family of smooth solutions phi = c0 + prod_i (1 + a_i sin(w_i xi_i + p_i)) (regular at the axis when r=0 is in the "
        "domain), variable D(xi)>0, u(xi), beta(xi)>=0.  sympy derives gamma and the boundary data c from the continuous operators of "
        "the coordinate system; the problem is solved on a ladder of doubling resolutions (1-D 16/32/64, 2-D 8/16/32, 3-D 6/12/24) and "
        "the observed order of the max-norm error at cell centres is compared with the scheme's order.  Non-trivial = every "
        "coordinate has amplitude >= 0.2, >=1 non-Dirichlet side, coarsest error >= 1e-6.  Distinct = SHA-1 of the canonical case.")
ASSUMPTIONS = ["decides the order on 3 (escalated: up to 5) finite resolutions on a 5-parameter solution family; an O(h^2) inconsistency is invisible here (C01/C10 see those)",
               "sympy's differentiation and lambdify are trusted"]
TRUSTED = ["sympy"]
LADDER = {1: [16, 32, 64], 2: [8, 16, 32], 3: [6, 12, 24]}
ESCALATE = {1: [128, 256, 512, 1024], 2: [64, 128], 3: []}
MIN_PER_SHARD = 4


@st.composite
def _case(draw, tier):
    name = draw(st.sampled_from(GRIDS + ['Grid1D', 'CylindricalGrid1D', 'SphericalGrid1D', 'Grid2D', 'CylindricalGrid2D', 'PolarGrid2D']))
    kinds = AXES[name]
    nd = len(kinds)
    axis = kinds[0] == 'r' and draw(st.booleans())
    dom = []
    small = nd == 3      # 3-D ladders stop at 24 (32) cells per axis: keep the problem resolved there (smaller domains, milder grading)
    for k in kinds:
        if k == 'x':
            lo = draw(st.sampled_from([0.0, -1.0, 0.5]))
            L = draw(st.sampled_from([1.0, 0.7] if small else [1.0, 2.0, 0.7]))
        elif k == 'r':
            lo = 0.0 if axis else draw(st.sampled_from([0.3, 1.0] if small else [0.3, 1.0, 2.0]))
            L = draw(st.sampled_from([1.0] if small else [1.0, 1.5]))
        elif k in ('thc', 'ph'):
            lo = draw(st.sampled_from([0.0, 0.4]))
            L = draw(st.sampled_from([1.0] if small else [1.0, 2.0, 4.0]))
        else:
            lo = draw(st.sampled_from([0.4, 0.8]))
            L = draw(st.sampled_from([1.0] if small else [1.0, 1.6]))
        dom.append([lo, lo + L, draw(st.sampled_from([0.0, 0.0, 0.3, -0.3] if small else [0.0, 0.0, 0.3, -0.45, 0.45]))])
    transient = nd <= 2 and draw(st.integers(0, 3)) == 0
    scheme = draw(st.sampled_from(['none', 'central', 'central', 'upwind']))
    bc = []
    pinned = False
    for ax, k in enumerate(kinds):
        ent = {}
        for side in ('lo', 'hi'):
            kd = draw(st.sampled_from(['D', 'N', 'R']))
            if side == 'lo' and k == 'r' and axis:
                kd = 'N'
            elif kd in ('D', 'R'):
                pinned = True
            a0 = draw(st.sampled_from([0.5, 1.0, 2.0]))
            b0 = draw(st.sampled_from([0.5, 1.0, 3.0]))
            ent[side] = dict(kind=kd, a0=a0, b0=b0)
        bc.append(ent)
    b0 = draw(st.sampled_from([0.0, 0.0, 0.5, 2.0]))
    if not pinned and b0 == 0.0 and not transient:
        b0 = 1.0
    par = dict(c0=draw(st.sampled_from([0.0, 1.0, -2.0])),
               d0=draw(st.sampled_from([0.5, 1.0, 2.0])), d1=draw(st.sampled_from([0.0, 0.3, 0.5])), b0=b0,
               lam=draw(st.sampled_from([0.5, 2.0])) if transient else 0.0, al=draw(st.sampled_from([1.0, 2.5])) if transient else 0.0, t=0.0)
    for i in range(3):
        par[f'a{i + 1}'] = draw(st.sampled_from([0.2, 0.4, 0.6, -0.5]))
        par[f'w{i + 1}'] = draw(st.sampled_from([1.0, 1.7] if small else [1.0, 1.7, 2.5, 3.1]))
        par[f'p{i + 1}'] = draw(st.sampled_from([0.0, 0.5, 1.3, 2.2]))
        par[f'v{i + 1}'] = draw(st.sampled_from([0.0, 0.5, -0.7, 1.0])) if scheme != 'none' else 0.0
    return dict(name=name, axis=axis, dom=dom, transient=transient, scheme=scheme, bc=bc, par=par, T=0.2,
                bc_style=draw(st.sampled_from(['passed', 'passed', 'shared_late'])))


EXHAUSTIVE_NOTE = ("a fixed stratum is enumerated besides the generated cases: class (9) x radial origin {offset, axis} x scheme {central, upwind} x "
                   "boundary pattern {Robin low / Neumann high, Neumann low / Robin high} x flow direction {v, -v} on graded grids (plus transient upwind variants in 1-D/2-D), so that "
                   "every class meets inflow and outflow through a non-Dirichlet side in every run")


def enumerate_cases(tier):
    for name in GRIDS:
        kinds = AXES[name]
        nd = len(kinds)
        small = nd == 3
        for axis in ([False, True] if kinds[0] == 'r' else [False]):
            dom = []
            for k in kinds:
                lo = dict(x=-1.0, r=0.0 if axis else 1.0, thc=0.4, ph=0.4, ths=0.8)[k]
                dom.append([lo, lo + 1.0, 0.3])
            for scheme in ('central', 'upwind'):
                for pat in (('R', 'N'), ('N', 'R')):
                    for sgn in (1.0, -1.0):
                        bc = []
                        for ax, k in enumerate(kinds):
                            ent = {}
                            for side, kd in zip(('lo', 'hi'), pat):
                                if side == 'lo' and k == 'r' and axis:
                                    kd = 'N'
                                ent[side] = dict(kind=kd, a0=1.0, b0=2.0 if side == 'lo' else 0.5)
                            bc.append(ent)
                        par = dict(c0=1.0, d0=1.0, d1=0.3, b0=0.5, lam=0.0, al=0.0, t=0.0)
                        for i in range(3):
                            par[f'a{i + 1}'] = [0.4, -0.5, 0.6][i]
                            par[f'w{i + 1}'] = [1.7, 1.0, 1.7][i] if small else [1.7, 2.5, 1.0][i]
                            par[f'p{i + 1}'] = [0.5, 1.3, 2.2][i]
                            par[f'v{i + 1}'] = sgn * [0.7, -0.5, 1.0][i]
                        yield dict(name=name, axis=axis, dom=dom, transient=False, scheme=scheme, bc=bc, par=par, T=0.2, enumerated=True,
                                   bc_style='shared_late' if sgn < 0 else 'passed')
                        if scheme == 'upwind' and nd <= 2 and pat == ('R', 'N'):
                            # a time loop: the same coefficient objects serve every step
                            yield dict(name=name, axis=axis, dom=dom, transient=True, scheme=scheme, bc=bc, par=dict(par, lam=0.5, al=1.0), T=0.2,
                                       enumerated=True)


def strategy(tier):
    return _case(tier)


def budget(tier):
    return 130 if tier == "quick" else 5000


def classify(case):
    return dict(grid=case['name'], axis=case['axis'], scheme=case['scheme'], transient=case['transient'],
                graded=any(d[2] != 0 for d in case['dom']), bc="".join(e[s]['kind'] for e in case['bc'] for s in ('lo', 'hi')),
                sink=case['par']['b0'] > 0)


def nontrivial(case):
    nondir = any(e[s]['kind'] != 'D' for e in case['bc'] for s in ('lo', 'hi'))
    return nondir and all(abs(case['par'][f'a{i + 1}']) >= 0.2 for i in range(NDIM[case['name']]))


def _faces(dom, n):
    lo, hi, g = dom
    s = np.linspace(0.0, 1.0, n + 1)
    x = lo + (hi - lo) * (s + g * s * (1 - s))
    x[0], x[-1] = lo, hi
    return x


def _bcast(arrs, nd, which):
    out = []
    for ax in range(nd):
        shp = [1] * nd
        shp[ax] = -1
        out.append(np.asarray(arrs[ax]).reshape(shp))
    return out


def solve_level(case, n, capture=None):
    """returns (max error at cell centres, volume-weighted rms error)"""
    name = case['name']
    F = msol.build(name, bool(case['axis']), bool(case['transient']))
    nd = F['nd']
    faces = [_faces(d, n) for d in case['dom']]
    m = make_grid(name, faces)
    cc = [0.5 * (f[1:] + f[:-1]) for f in faces]
    par = dict(case['par'])
    dims = tuple(len(c) for c in cc)

    def at_cells(f, t=0.0):
        p = dict(par, t=t)
        return msol.evalf(f, _bcast(cc, nd, 'c'), p).reshape(dims)

    def at_faces(f, ax):
        pts = [faces[b] if b == ax else cc[b] for b in range(nd)]
        return msol.evalf(f, _bcast(pts, nd, 'f'), par)
    D = mk_face(m, [at_faces(F['D'], ax) for ax in range(nd)])
    u = mk_face(m, [at_faces(F['u'][ax], ax) for ax in range(nd)])
    beta = pf.CellVariable(m, at_cells(F['beta']))

    def set_bc(BC, t):
        p = dict(par, t=t)
        for ax in range(nd):
            for side, sname, fi in (('lo', SIDES[ax][0], 0), ('hi', SIDES[ax][1], -1)):
                e = case['bc'][ax][side]
                pts = [np.array([faces[b][fi]]) if b == ax else cc[b] for b in range(nd)]
                co = _bcast(pts, nd, 'b')
                phi_b = msol.evalf(F['phi'], co, p)
                dn_b = msol.evalf(F['dn'][ax], co, p)
                shp = bc_shape(dims, ax)
                phi_b = phi_b.reshape(shp)
                dn_b = np.nan_to_num(dn_b.reshape(shp), nan=0.0, posinf=0.0, neginf=0.0)
                bf = getattr(BC, sname)
                if e['kind'] == 'D':
                    a, b = 0.0, 1.0
                elif e['kind'] == 'N':
                    a, b = 1.0, 0.0
                else:
                    a, b = (e['a0'] if side == 'hi' else -e['a0']), e['b0']
                bf.a[:] = a
                bf.b[:] = b
                bf.c[:] = (a * dn_b + b * phi_b).reshape(bf.c.shape)
    BC = pf.BoundaryConditions(m)
    shared_late = case.get('bc_style') == 'shared_late' and not case['transient']
    if not shared_late:
        set_bc(BC, 0.0)

    def spatial(t):
        tl = [-pf.diffusionTerm(D), pf.linearSourceTerm(beta), pf.constantSourceTerm(pf.CellVariable(m, at_cells(F['gamma'], t)))]
        if case['scheme'] == 'central':
            tl.append(pf.convectionTerm(u))
        elif case['scheme'] == 'upwind':
            tl.append(pf.convectionUpwindTerm(u))
        return tl
    if not case['transient']:
        phi = pf.CellVariable(m, 0.0, BC)
        if shared_late:
            # one BC object: the boundary data are set after the unknown exists, and a second variable (the exact solution, for
            # comparison) is created on the same object before the solve
            set_bc(BC, 0.0)
            pf.CellVariable(m, at_cells(F['phi'], 0.0), BC)
        if capture is not None:
            from scipy.sparse.linalg import spsolve

            def rec(M, b):
                capture['M'] = M.toarray()
                return spsolve(M, b)
            pf.solvePDE(phi, spatial(0.0), externalsolver=rec)
        else:
            pf.solvePDE(phi, spatial(0.0))
        exact = at_cells(F['phi'], 0.0)
    else:
        phi = pf.CellVariable(m, at_cells(F['phi'], 0.0), BC)
        base = LADDER[nd][0]
        nsteps = 2 * (n // base) ** 2 if case['scheme'] != 'upwind' else 2 * (n // base)
        dt = case['T'] / nsteps
        alpha_cv = pf.CellVariable(m, at_cells(F['alpha']))
        for k in range(nsteps):
            t = (k + 1) * dt
            set_bc(phi.BCs, t)
            pf.solvePDE(phi, [pf.transientTerm(phi, dt, alpha_cv)] + spatial(t))
        exact = at_cells(F['phi'], case['T'])
    err = np.asarray(phi.value, float) - exact
    V = np.abs(np.asarray(m.cellvolume, float))
    emax, erms = float(np.abs(err).max()), float(np.sqrt((V * err ** 2).sum() / V.sum()))
    # with the axis r = 0 in the domain the error is measured in the volume-weighted RMS norm: the midpoint-rule cell measure of
    # the cell touching the axis is off by O(1) (r_c^2 dr = dr^3/4 instead of dr^3/3 on SphericalGrid3D), which degrades the
    # max norm locally (observed orders 1.3 -> 1.7 rising slowly) while the RMS error converges at order 2.0
    return (erms if case['axis'] else emax), erms, float(np.abs(exact).max())


def stability_probe(case):
    """error amplification of the steady discrete problem, max_i sum_j |M^-1|_ij over the PDE rows j, on the two coarsest ladder
    levels.  The error is M^-1 applied to the truncation error; for a well-posed problem on an O(1) domain with O(1) diffusivity
    this factor is O(1).  A manufactured problem whose continuous operator is nearly singular (advection with net compression
    and no sink can cancel the diffusion's smallest eigenvalue) amplifies the truncation error by orders of magnitude and says
    nothing about the discretisation at any affordable resolution."""
    if case['transient']:
        return 1.0
    g = 0.0
    nd = NDIM[case['name']]
    for n in LADDER[nd][:2]:
        cap = {}
        solve_level(case, n, capture=cap)
        M = cap['M']
        d = (n,) * nd
        idx = np.arange(M.shape[0]).reshape(tuple(k + 2 for k in d))[tuple(slice(1, -1) for _ in d)].ravel()
        try:
            Minv = np.linalg.inv(M)
        except np.linalg.LinAlgError:
            return float('inf')
        g = max(g, float(np.abs(Minv[:, idx]).sum(axis=1).max()))
    return g


MARGIN = {1: (0.45, 0.25), 2: (0.45, 0.25), 3: (0.6, 0.4)}    # (average, finest pair); 3-D ladders are coarser (<= 32 cells per axis)


def _decide(errs, p0, scale, nd=1):
    if not all(np.isfinite(errs)):
        return 'nonfinite', []
    if errs[-1] <= 1e-11 * max(scale, 1.0):
        return 'pass', []
    orders = [math.log2(errs[i] / errs[i + 1]) if errs[i + 1] > 0 and errs[i] > 0 else float('inf') for i in range(len(errs) - 1)]
    avg = math.log2(errs[0] / errs[-1]) / (len(errs) - 1) if errs[-1] > 0 and errs[0] > 0 else float('inf')
    ma, ml = MARGIN[nd]
    if nd == 3 and p0 == 1:
        ml = 0.5      # first-order upwind on the coarse 3-D ladder: the error hump of the coarsest levels is still visible
    if len(orders) >= 2 and orders[-1] - orders[-2] >= 0.2:
        ml = max(ml, 0.5)     # finite ladders: an order still rising by >= 0.2 per doubling is pre-asymptotic (a defect gives a flat one)
    if avg >= p0 - ma or orders[-1] >= p0 - ml:
        return 'pass', orders
    return 'undecided', orders


def check(case):
    res = Result()
    nd = NDIM[case['name']]
    p0 = 1 if case['scheme'] == 'upwind' else 2
    ladder = list(LADDER[nd])
    errs, scale = [], 1.0
    for n in ladder:
        e, rms, sc = solve_level(case, n)
        errs.append(e)
        scale = max(scale, sc)
    verdict, orders = _decide(errs, p0, scale, nd)
    esc = 0
    for n in ESCALATE[nd]:
        if verdict != 'undecided':
            break
        e, rms, sc = solve_level(case, n)
        errs.append(e)
        ladder.append(n)
        esc += 1
        verdict, orders = _decide(errs[-3:] if len(errs) > 3 else errs, p0, scale, nd)
    if nd == 3 and verdict == 'undecided':
        # one more ladder for 3-D: 8/16/32
        errs2 = [solve_level(case, n)[0] for n in (8, 16, 32)]
        esc += 1
        verdict, orders = _decide(errs2, p0, scale, nd)
        errs, ladder = errs2, [8, 16, 32]
    res.units = len(errs)
    res._escalated = esc
    if verdict == 'nonfinite':
        res.discarded = True
        return res
    if orders:
        res.see(f"order-deficit-p{p0}", max(0.0, p0 - orders[-1]))
    if errs[0] < 1e-6 * scale:
        res._trivial = True
    if verdict != 'pass':
        g = stability_probe(case)
        res.see("amplification-of-undecided", g)
        if not g < 30.0:
            # inconclusive, not a violation: the manufactured problem itself amplifies truncation errors by >= 30
            res.discarded = True
            res.discard_reason = 'ill-conditioned-problem'
            return res
        tag = f"{case['scheme']}{'+transient' if case['transient'] else ''}:{case['name']}"
        res.fail(f"order:{tag}", f"error does not decrease at order {p0} under refinement on {case['name']} (scheme {case['scheme']}, "
                 f"transient={case['transient']}, axis r=0 in domain={case['axis']}, BCs {classify(case)['bc']}): N={ladder[-len(orders) - 1:]}, "
                 f"max errors {['%.3e' % e for e in errs[-len(orders) - 1:]]}, observed orders {['%.2f' % o for o in orders]}", float(p0 - orders[-1]))
    return res
