"""C06  Uniform fields stay uniform: constants are diffusion-free and advect as c*div(u); sources are cell-local."""
import numpy as np
from hypothesis import strategies as st

import pyfvtool as pf

from .. import gen, oracle, problem
from ..common import (AXES, LIMITERS, dims_of, full_shape, interior, make_grid, mk_face, nonuniform)
from ..result import Result

ID = "C06"
RTOL = 1e-10
TOLERANCES = {"operator on constant (relative to sum |row|*|c0|)": RTOL, "TVD of constant": "bitwise 0",
              "steady solve": "max(1e-8, 1e-11*cond(step matrix)) * step number; cases with cond >= 1e7 discarded", "source-only solve": 1e-12}
RULE = ("Generated: grid (9 classes, N 1..4 / 1..3 in 3-D, all spacings, r0=0/offset) x D>=0 with zeros/contrast x "
        "arbitrary u, direction field w x constant c0 = +-10^[-6,6] x all 16 limiters; solver part: uniform field, "
        "boundary values matching it (Dirichlet c0 with face-wise scaled coefficients / no-flux / periodic), discretely "
        "divergence-free u from discrete stream functions, scheme in {central, upwind, tvd}, 1..3 steps, dt over 8 decades, "
        "alpha scalar or per cell; source-only solve beta*phi=gamma under arbitrary BCs.  Non-trivial = (non-uniform "
        "spacing or 3-D curvilinear) and u with mixed signs and c0 != 0; solver part additionally >=1 Dirichlet side "
        "with u.n != 0 somewhere.  Distinct = SHA-1 of the canonical case.")
ASSUMPTIONS = ["w zero only where u is zero (K5)"]


@st.composite
def _case(draw):
    g = draw(gen.grids())
    name = g['name']
    d = dims_of(g['faces'])
    nd = len(d)
    c0 = draw(st.sampled_from([1.0, -1.0, 2.5, -0.3])) * 10.0 ** draw(st.integers(-6, 6))
    if draw(st.integers(0, 19)) == 0:
        c0 = 0.0
    D = draw(gen.diffusivity(d))
    u = draw(gen.face_field(d))
    w = draw(gen.face_field(d, styles=('generic', 'pos', 'neg', 'int')))
    w2 = []
    for uc, wc in zip(u, w):
        uc, wc = np.array(uc, float), np.array(wc, float)
        wc[(wc == 0) & (uc != 0)] = 1.0
        w2.append(wc.tolist())
    case = dict(grid=g, c0=c0, D=D, u=u, w=w2)
    # solver part
    per = [ax for ax, k in enumerate(AXES[name]) if k != 'r' and draw(st.integers(0, 3)) == 0]
    bc = []
    ndir = 0
    for ax in range(nd):
        shp = gen.bc_shape(d, ax)
        ent = dict(periodic=draw(st.sampled_from(['both', 'lo', 'hi'])) if ax in per else 'none')
        for side in ('lo', 'hi'):
            if draw(st.booleans()):
                s = gen.expand('generic', draw(st.integers(0, 2 ** 31 - 1)), shp, 0.5, 3.0)
                ent[side] = dict(kind='D', a=np.zeros(shp).tolist(), b=s.tolist(), c=(s * c0).tolist())
                ndir += ax not in per
            else:
                ent[side] = dict(kind='N', a=np.ones(shp).tolist(), b=np.zeros(shp).tolist(), c=np.zeros(shp).tolist())
        bc.append(ent)
    P = dict(name=name, faces=g['faces'], bc=bc, init=np.full(d, c0).tolist(),
             D=D if draw(st.booleans()) else None,
             u=draw(gen.divfree_velocity(name, g['faces'])),
             scheme=draw(st.sampled_from(['central', 'upwind', 'tvd'])), FL=draw(gen.limiter_names),
             alpha=draw(st.one_of(st.sampled_from([1.0, 0.01, 50.0]),
                                  gen.arrays(d, styles=('pos',), lo=0.1, hi=3.0, direct=False))),
             beta=None, gamma=None, steps=draw(st.integers(1, 3)), theta=10.0 ** draw(st.floats(-4, 4)))
    case['P'] = P
    case['ndirichlet'] = ndir
    case['periodic_axes'] = per
    # source-only solve
    case['beta'] = draw(gen.arrays(d, styles=('pos', 'neg', 'contrast'), lo=0.1, hi=3.0, direct=False))
    case['gamma'] = draw(gen.arrays(d, styles=('generic', 'int', 'zeros'), direct=False))
    case['bc_any'] = draw(gen.bcs(name, d))
    return case


def strategy(tier):
    return _case()


def budget(tier):
    return 3000 if tier == "quick" else 100000


def classify(case):
    g = case['grid']
    d = dims_of(g['faces'])
    return dict(grid=g['name'], N="x".join(map(str, d)), nonuniform=nonuniform(g['faces']),
                c0dec=int(np.floor(np.log10(abs(case['c0'])))) if case['c0'] else 'zero', scheme=case['P']['scheme'],
                nper=len(case['periodic_axes']), ndir=case['ndirichlet'],
                alpha='scalar' if np.isscalar(case['P']['alpha']) else 'cell')


def nontrivial(case):
    g = case['grid']
    name = g['name']
    geo_ok = nonuniform(g['faces']) or name in ('CylindricalGrid3D', 'SphericalGrid3D')
    mixed = any((np.array(c) > 0).any() and (np.array(c) < 0).any() for c in case['u'])
    if not (geo_ok and mixed and case['c0'] != 0):
        return False
    un = False
    for ax, c in enumerate(case['P']['u']):
        c = np.array(c)
        un |= bool(np.any(np.take(c, 0, axis=ax) != 0) or np.any(np.take(c, -1, axis=ax) != 0))
    return case['ndirichlet'] >= 1 and un


def _rows(d, M):
    A = M.toarray()
    rows = interior(d, np.arange(A.shape[0])).ravel()
    return A[rows, :]


def check(case):
    res = Result()
    g = case['grid']
    name = g['name']
    m = make_grid(name, g['faces'])
    d = dims_of(g['faces'])
    c0 = case['c0']
    n = int(np.prod(full_shape(d)))
    ones = np.ones(n)
    D = mk_face(m, case['D'])
    u = mk_face(m, case['u'])
    w = mk_face(m, case['w'])

    # diffusion of a constant
    R = _rows(d, pf.diffusionTerm(D))
    sc = np.abs(R).sum(axis=1).max() + 1e-300
    res.expect_small("diffusion-const", float(np.abs(R @ ones).max() / sc), RTOL, f"diffusion-const:{name}",
                     f"diffusionTerm applied to a constant is not zero on {name}")
    # advection of a constant = c * div u
    divu = interior(d, pf.divergenceTerm(u)).ravel()
    for nm, M in (("central", pf.convectionTerm(u)), ("upwind", pf.convectionUpwindTerm(u)),
                  ("upwind-dir", pf.convectionUpwindTerm(u, w))):
        R = _rows(d, M)
        sc = np.abs(R).sum(axis=1).max() + 1e-300
        res.expect_small(f"{nm}-const", float(np.abs(R @ ones - divu).max() / sc), RTOL, f"{nm}-const:{name}",
                         f"{nm} term of a constant != c*div(u) on {name}")
    # TVD correction of a constant: bitwise zero for all 16 limiters (+ unknown name)
    cv = pf.CellVariable(m, np.full(full_shape(d), c0), BCsTerm_precalc=False)
    for fl in LIMITERS:
        FL = pf.fluxLimiter(fl)
        for args in ((), (w,)):
            z = np.asarray(pf.convectionTVDupwindRHSTerm(u, cv, FL, *args))
            if np.any(z != 0) or not np.all(np.isfinite(z)):
                res.fail(f"tvd-const:{name}", f"TVD correction of a constant field not identically 0 ({fl}, {name})",
                         float(np.nanmax(np.abs(z))))
                break
    # means of a constant
    for nm, f in (("linearMean", pf.linearMean), ("arithmeticMean", pf.arithmeticMean)):
        fv = f(cv)
        for comp in (fv._xvalue, fv._yvalue, fv._zvalue)[:len(d)]:
            e = np.abs(np.asarray(comp) - c0).max() / (abs(c0) + 1e-300) if c0 else np.abs(comp).max()
            res.expect_small(f"{nm}-const", float(e), 1e-14, f"{nm}-const:{name}", f"{nm} of a constant != constant on {name}")

    # steady state of solvePDE
    P = case['P']
    mm, BC, phi = problem.build_var(P)
    nrm = problem.opnorm(mm, P)
    dt = P["theta"] / (nrm if nrm > 0 else 1.0)
    ok = True
    # conditioning of the step's own system: pure central advection with large dt is nearly singular (non-dissipative), the
    # uniform state is then reproduced only to cond*eps
    A_, s_ = problem.spatial_operator(mm, P)
    Mb_, vb_ = pf.boundaryConditionsTerm(phi.BCs)
    T_ = Mb_.toarray() + A_ + pf.transientTerm(phi, dt, problem.alpha_arg(mm, P))[0].toarray()
    try:
        cond = float(np.linalg.cond(T_))
    except np.linalg.LinAlgError:
        cond = float('inf')
    if not cond < 1e7:
        res.discarded = True
        res.discard_reason = 'ill-conditioned'
        ok = False
    # rounding of a solve is amplified by cond (and accumulates over the steps); real defects seen are >= 1e-4
    tol_steady = max(1e-8, 1e-11 * cond)
    coefs = problem.make_coefs(mm, P)
    for k in range(P['steps'] if ok else 0):
        problem.step_implicit(mm, phi, P, dt, coefs=coefs)
        v = np.asarray(phi.value)
        if not np.all(np.isfinite(v)):
            res.discarded = True
            ok = False
            break
        e = np.abs(v - c0).max() / (abs(c0) if c0 else 1.0)
        if not res.expect_small("steady-uniform", float(e), tol_steady * (k + 1), f"steady-uniform:{P['scheme']}:{name}",
                                f"uniform field in divergence-free flow not steady ({P['scheme']}, {name}, "
                                f"periodic {case['periodic_axes']}, step {k + 1})"):
            break
    # source-only solve: beta*phi = gamma  =>  gamma/beta in every cell whatever the BCs
    Q = dict(name=name, faces=g['faces'], bc=case['bc_any'], init=np.zeros(d).tolist())
    m2, BC2, ph2 = problem.build_var(Q)
    beta = np.array(case['beta'], float)
    gam = np.array(case['gamma'], float)
    try:
        pf.solvePDE(ph2, [pf.linearSourceTerm(pf.CellVariable(m2, beta)), pf.constantSourceTerm(pf.CellVariable(m2, gam))])
        want = gam / beta
        sc = np.abs(want).max() + 1e-300
        res.expect_small("source-only", float(np.abs(np.asarray(ph2.value) - want).max() / sc), 1e-12,
                         f"source-only:{name}", f"solvePDE with beta*phi=gamma alone != gamma/beta on {name}")
    except Exception as e:   # singular BC system etc. would be a generator problem
        if "singular" in str(e).lower():
            res.discarded = True
        else:
            raise
    return res
