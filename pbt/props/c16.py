"""C16  Unsupported requests fail loudly with the documented error, valid ones never do."""
import itertools

import numpy as np
from hypothesis import strategies as st

import pyfvtool as pf

from .. import gen, problem
from ..common import AXES, GRIDS, LABELS, NDIM, SIDES, dims_of, face_shapes, full_shape, make_grid, mk_face
from ..result import Result

ID = "C16"
TOLERANCES = {"outcome": "exception type (or absence); foreign-label writes must leave the object's bytes unchanged"}
RULE = ("Enumerated completely: 9 classes x 6 coordinate labels x {cellsize, cellcenters, facecenters} x {get,set}; 9 x 6 "
        "component labels x {get,set}; 9 classes x every subset of periodic axes x every choice of flag (lo/hi/both) per "
        "periodic axis, for boundaryConditionsTerm, CellVariable construction, solvePDE, and every ordered pair of requests {solvePDE, solveExplicitPDE, apply_BCs} on one late-toggled variable (the refusal must be repeated); constructor arities 0..7 x "
        "{numbers, arrays}; initial-value shape families on six meshes; non-array a/b/c in each position; non-term objects in "
        "the term list on every class.  Generated: valid constructor forms / labels / term kinds on random grids with N>=1 "
        "(N=1 on some axis in ~half of the cases) must not raise.  Expected outcomes are transcribed from the docs "
        "(docs/user_guide/meshes.md tables; docstrings).  Non-trivial = every invalid combination and every valid one on a grid "
        "with N=1 on some axis.  Distinct = SHA-1 of the case.")
EXHAUSTIVE_NOTE = "class x label x object x get/set; class x component label x get/set; class x periodic subsets x flag choice; arities; shape families; bad coefficient / term objects"
ASSUMPTIONS = ["the internal 6-argument constructor form is not part of the documented interface and is not probed",
               "numbers passed in the arity of the face-array form (and arrays in the arity of the (N,L) form) are type errors of "
               "another kind, not arity errors, and are not probed",
               "size-1 arrays whose number of axes differs from the grid's are unspecified (scalar-like or rejected) and not probed"]
COORD = ['x', 'y', 'z', 'r', 'theta', 'phi']
COMP = ['xvalue', 'yvalue', 'zvalue', 'rvalue', 'thetavalue', 'phivalue']
COMP_OF = {k: {lab + 'value': ax for lab, ax in v.items()} for k, v in LABELS.items()}
INTERNAL = ['_x', '_y', '_z']
INTERNALV = ['_xvalue', '_yvalue', '_zvalue']
SMALL = dict(Grid1D=(3,), CylindricalGrid1D=(3,), SphericalGrid1D=(3,), Grid2D=(2, 3), CylindricalGrid2D=(2, 3),
             PolarGrid2D=(2, 3), Grid3D=(2, 3, 2), CylindricalGrid3D=(2, 3, 2), SphericalGrid3D=(2, 3, 2))


def small_grid(name, dims=None):
    dims = dims or SMALL[name]
    faces = []
    for k, n in zip(AXES[name], dims):
        lo, hi = dict(x=(0.0, 1.0), r=(0.5, 2.0), thc=(0.0, 2.0), ths=(0.3, 2.0), ph=(0.0, 3.0))[k]
        faces.append(np.linspace(lo, hi, n + 1))
    return make_grid(name, faces), faces


def enumerate_cases(tier):
    for name in GRIDS:
        for obj in ('cellsize', 'cellcenters', 'facecenters'):
            for lab in COORD:
                for op in ('get', 'set'):
                    yield dict(kind='coord', grid=name, obj=obj, label=lab, op=op)
        for lab in COMP:
            for op in ('get', 'set'):
                yield dict(kind='comp', grid=name, label=lab, op=op)
        nd = NDIM[name]
        for k in range(0, nd + 1):
            for axes in itertools.combinations(range(nd), k):
                for flags in itertools.product(('lo', 'hi', 'both'), repeat=k):
                    for dims in (SMALL[name], tuple(1 for _ in range(nd))):
                        yield dict(kind='periodic', grid=name, axes=list(axes), flags=list(flags), dims=list(dims))
        for ar in range(0, 8):
            for typ in ('num', 'arr'):
                yield dict(kind='arity', grid=name, arity=ar, typ=typ)
        for bad in ('str', 'float', 'None', 'dict', 'list', 'arr3', 'arr0', 'tuple1', 'tuple3', 'tuple_swapped', 'tuple_none',
                    'int', 'listpair'):
            yield dict(kind='badterm', grid=name, bad=bad)
        for good in ('matrix', 'vector', 'tuple', 'negmatrix', 'scaledvector'):
            yield dict(kind='goodterm', grid=name, good=good)
    for name, dims in (('Grid1D', (3,)), ('SphericalGrid1D', (1,)), ('Grid2D', (2, 3)), ('PolarGrid2D', (3, 3)),
                       ('Grid3D', (2, 3, 4)), ('CylindricalGrid3D', (1, 2, 1)), ('CylindricalGrid2D', (1, 1))):
        for fam in ('dims', 'dims+2', 'scalar', 'npscalar', 'size1', 'zerod', 'dims+1', 'dims-1', 'mixed', 'transposed',
                    'transposed+2', 'extra_axis', 'missing_axis', 'square_full', 'vector_N', 'flat', 'flat_full', 'empty'):
            yield dict(kind='shape', grid=name, dims=list(dims), fam=fam)
    for pos in (0, 1, 2):
        for bad in ('float', 'list', 'int', 'None', 'tuple'):
            yield dict(kind='badcoef', pos=pos, bad=bad)
    yield dict(kind='goodcoef')


@st.composite
def _valid(draw):
    g = draw(gen.grids(nmin=1, nmax=4, nmax3=3))
    name = g['name']
    d = list(dims_of(g['faces']))
    if draw(st.booleans()):      # force N = 1 on some axis
        ax = draw(st.integers(0, len(d) - 1))
        f = g['faces'][ax]
        g['faces'][ax] = [f[0], f[-1]]
        d[ax] = 1
    d = tuple(d)
    form = draw(st.sampled_from(['faces', 'NL']))
    init = draw(st.sampled_from(['scalar', 'dims', 'full', 'size1']))
    fvform = draw(st.sampled_from(['scalar', 'vector', 'xyz']))
    scheme = draw(st.sampled_from(['none', 'central', 'upwind', 'tvd']))
    bc = draw(gen.bcs(name, d))
    seed = draw(st.integers(0, 2 ** 31 - 1))
    return dict(kind='valid', grid=g, form=form, init=init, fvform=fvform, scheme=scheme, bc=bc, seed=seed,
                FL=draw(gen.limiter_names))


def strategy(tier):
    return _valid()


def budget(tier):
    return 1500 if tier == "quick" else 200000


def classify(case):
    out = dict(kind=case['kind'])
    g = case.get('grid')
    out['grid'] = g['name'] if isinstance(g, dict) else (g or '-')
    return out


def nontrivial(case):
    if case['kind'] == 'valid':
        return min(dims_of(case['grid']['faces'])) == 1
    if case['kind'] in ('goodterm', 'goodcoef'):
        return False
    if case['kind'] == 'coord':
        return case['op'] == 'set' or case['label'] not in LABELS[case['grid']]
    if case['kind'] == 'comp':
        return case['label'] not in COMP_OF[case['grid']]
    if case['kind'] == 'periodic':
        return len(case['axes']) > 0
    if case['kind'] == 'shape':
        return case['fam'] not in ('dims', 'dims+2', 'scalar', 'npscalar')
    return True


def _snap_mesh(m):
    return [np.array(getattr(o, a), copy=True) for o in (m.cellsize, m.cellcenters, m.facecenters) for a in INTERNAL]


def _same(a, b):
    return len(a) == len(b) and all(np.array_equal(x, y) for x, y in zip(a, b))


def _outcome(fn):
    try:
        return None, fn()
    except BaseException as e:  # noqa
        return e, None


def _expect(res, bucket, what, exc, want):
    """want: exception class or None"""
    if want is None:
        if exc is not None:
            res.fail(bucket, f"{what}: raised {type(exc).__name__}({exc}) but the request is documented as valid")
    else:
        if exc is None:
            res.fail(bucket, f"{what}: no exception, documented: {want.__name__}")
        elif type(exc) is not want and not (want is AttributeError and isinstance(exc, AttributeError)):
            res.fail(bucket, f"{what}: raised {type(exc).__name__}({exc}), documented: {want.__name__}")


def check(case):
    res = Result()
    k = case['kind']
    if k == 'coord':
        name, obj, lab, op = case['grid'], case['obj'], case['label'], case['op']
        m, faces = small_grid(name)
        o = getattr(m, obj)
        doc = LABELS[name]
        before = _snap_mesh(m)
        if op == 'get':
            exc, val = _outcome(lambda: getattr(o, lab))
            if lab in doc:
                _expect(res, f"coord-get:{name}", f"{name}.{obj}.{lab}", exc, None)
                if exc is None and val is not getattr(o, INTERNAL[doc[lab]]):
                    res.fail(f"coord-get-axis:{name}", f"{name}.{obj}.{lab} does not return internal axis {doc[lab]}")
            else:
                _expect(res, f"coord-get:{name}", f"{name}.{obj}.{lab} (foreign label)", exc, AttributeError)
        else:
            exc, _ = _outcome(lambda: setattr(o, lab, np.zeros(3)))
            if lab in doc:
                # the grid's own labels are read-only today (setters commented out in mesh.py); whether writing them is
                # supported is not part of the property - only that it does not fail in an undocumented way
                if exc is not None and not isinstance(exc, AttributeError):
                    res.fail(f"coord-set:{name}", f"{name}.{obj}.{lab} = ... raised {type(exc).__name__}")
                return res
            # foreign labels must raise AttributeError and change nothing
            _expect(res, f"coord-set:{name}", f"{name}.{obj}.{lab} = ... (foreign label)", exc, AttributeError)
            if not _same(before, _snap_mesh(m)) or lab in vars(o):
                res.fail(f"coord-set-mutates:{name}", f"assigning {name}.{obj}.{lab} changed the mesh")
        return res
    if k == 'comp':
        name, lab, op = case['grid'], case['label'], case['op']
        m, faces = small_grid(name)
        d = SMALL[name]
        comps = [np.full(s, float(i + 1)) for i, s in enumerate(face_shapes(d))]
        fv = mk_face(m, comps)
        doc = COMP_OF[name]
        if op == 'get':
            exc, val = _outcome(lambda: getattr(fv, lab))
            if lab in doc:
                _expect(res, f"comp-get:{name}", f"FaceVariable.{lab} on {name}", exc, None)
                if exc is None and val is not getattr(fv, INTERNALV[doc[lab]]):
                    res.fail(f"comp-get-axis:{name}", f"FaceVariable.{lab} on {name} does not return component {doc[lab]}")
            else:
                _expect(res, f"comp-get:{name}", f"FaceVariable.{lab} on {name} (foreign label)", exc, AttributeError)
        else:
            before = [getattr(fv, a) for a in INTERNALV]
            newv = np.full((2,), 9.0)
            exc, _ = _outcome(lambda: setattr(fv, lab, newv))
            after = [getattr(fv, a) for a in INTERNALV]
            if lab in doc:
                _expect(res, f"comp-set:{name}", f"FaceVariable.{lab} = ... on {name}", exc, None)
                for i in range(3):
                    should = newv if i == doc[lab] else before[i]
                    if after[i] is not should:
                        res.fail(f"comp-set-axis:{name}", f"FaceVariable.{lab} = v on {name}: component {i} is not what it should be")
            else:
                _expect(res, f"comp-set:{name}", f"FaceVariable.{lab} = ... on {name} (foreign label)", exc, AttributeError)
                if any(a is not b for a, b in zip(before, after)) or lab in vars(fv):
                    res.fail(f"comp-set-mutates:{name}", f"assigning foreign FaceVariable.{lab} on {name} changed the object")
        return res
    if k == 'periodic':
        name = case['grid']
        m, faces = small_grid(name, tuple(case['dims']))
        radial = any(AXES[name][ax] == 'r' for ax in case['axes'])
        want = ValueError if radial else None

        def mkbc():
            BC = pf.BoundaryConditions(m)
            for ax, fl in zip(case['axes'], case['flags']):
                lo, hi = SIDES[ax]
                if fl in ('lo', 'both'):
                    getattr(BC, lo).periodic = True
                if fl in ('hi', 'both'):
                    getattr(BC, hi).periodic = True
            return BC
        tag = f"{name}"
        exc, _ = _outcome(lambda: pf.boundaryConditionsTerm(mkbc()))
        _expect(res, f"periodic-term:{tag}", f"boundaryConditionsTerm with periodic axes {case['axes']} flags {case['flags']} on {name}{tuple(case['dims'])}", exc, want)
        exc, _ = _outcome(lambda: pf.CellVariable(m, 1.0, mkbc()))
        _expect(res, f"periodic-var:{tag}", f"CellVariable(.., BC) with periodic axes {case['axes']} flags {case['flags']} on {name}{tuple(case['dims'])}", exc, want)

        def late():
            v = pf.CellVariable(m, 1.0)
            for ax, fl in zip(case['axes'], case['flags']):
                lo, hi = SIDES[ax]
                if fl in ('lo', 'both'):
                    getattr(v.BCs, lo).periodic = True
                if fl in ('hi', 'both'):
                    getattr(v.BCs, hi).periodic = True
            pf.solvePDE(v, [pf.transientTerm(v, 1.0, 1.0), -pf.diffusionTerm(pf.FaceVariable(m, 1.0))])
            return v
        exc, v = _outcome(late)
        _expect(res, f"periodic-solve:{tag}", f"solvePDE after toggling periodic on axes {case['axes']} flags {case['flags']} on {name}{tuple(case['dims'])}", exc, want)
        if exc is None and want is None and not np.all(np.isfinite(np.asarray(v.value))):
            res.fail(f"periodic-solve-nonfinite:{tag}", f"solvePDE with periodic axes {case['axes']} gave non-finite values on {name}{tuple(case['dims'])}")
        # the refusal is not a one-off: a program that catches the error and asks again (same or another entry point, same
        # variable) must be refused again - and a supported declaration must keep working
        nfull = int(np.prod([n + 2 for n in case['dims']]))
        reqs = dict(solvePDE=lambda v: pf.solvePDE(v, [pf.transientTerm(v, 1.0, 1.0), -pf.diffusionTerm(pf.FaceVariable(m, 1.0))]),
                    solveExplicitPDE=lambda v: pf.solveExplicitPDE(v, 0.1, np.zeros(nfull)),
                    apply_BCs=lambda v: v.apply_BCs())
        for r1 in reqs:
            for r2 in reqs:
                v = pf.CellVariable(m, 1.0)
                for ax, fl in zip(case['axes'], case['flags']):
                    lo, hi = SIDES[ax]
                    if fl in ('lo', 'both'):
                        getattr(v.BCs, lo).periodic = True
                    if fl in ('hi', 'both'):
                        getattr(v.BCs, hi).periodic = True
                e1, _ = _outcome(lambda: reqs[r1](v))
                e2, _ = _outcome(lambda: reqs[r2](v))
                _expect(res, f"periodic-first:{r1}:{tag}", f"{r1} after toggling periodic on axes {case['axes']} flags {case['flags']} on {name}{tuple(case['dims'])}", e1, want)
                _expect(res, f"periodic-again:{r1}>{r2}:{tag}", f"{r2} following a{' refused' if want else ''} {r1} on the same variable, periodic axes {case['axes']} flags "
                        f"{case['flags']} on {name}{tuple(case['dims'])}", e2, want)
        return res
    if k == 'arity':
        name, ar, typ = case['grid'], case['arity'], case['typ']
        nd = NDIM[name]
        if ar == 6 and not (typ == 'num' and nd == 3):
            return res          # internal 6-argument form
        if typ == 'num':
            if ar == nd:
                return res      # numbers in the face-array arity: a type error, not an arity error
            args = [2] * (ar // 2) + [1.0] * (ar - ar // 2) if ar != 2 * nd else [2] * nd + [1.0] * nd
            want = None if ar == 2 * nd else TypeError
        else:
            if ar == 2 * nd:
                return res
            args = [np.linspace(0.5, 1.5, 3) for _ in range(ar)]
            want = None if ar == nd else TypeError
        exc, _ = _outcome(lambda: getattr(pf, name)(*args))
        _expect(res, f"arity:{name}", f"{name}(*{ar} {'numbers' if typ == 'num' else 'arrays'})", exc, want)
        return res
    if k == 'shape':
        name, dims, fam = case['grid'], tuple(case['dims']), case['fam']
        m, faces = small_grid(name, dims)
        nd = len(dims)
        valid = False
        if fam == 'dims':
            v, valid = np.ones(dims), True
        elif fam == 'dims+2':
            v, valid = np.ones(tuple(n + 2 for n in dims)), True
        elif fam == 'scalar':
            v, valid = 2.5, True
        elif fam == 'npscalar':
            v, valid = np.float64(2.5), True
        elif fam == 'size1':
            v, valid = np.ones((1,) * nd), True
        elif fam == 'zerod':
            v, valid = np.array(2.5), True
        elif fam == 'dims+1':
            v = np.ones(tuple(n + 1 for n in dims))
        elif fam == 'dims-1':
            v = np.ones(tuple(max(n - 1, 0) for n in dims))
            valid = v.size == 1 or v.shape == dims
        elif fam == 'mixed':
            v = np.ones(tuple(n + (2 if i == 0 else 0) for i, n in enumerate(dims)))
            valid = nd == 1
        elif fam == 'transposed':
            v = np.ones(dims[::-1])
            valid = dims[::-1] == dims
        elif fam == 'transposed+2':
            v = np.ones(tuple(n + 2 for n in dims[::-1]))
            valid = dims[::-1] == dims
        elif fam == 'extra_axis':
            v = np.ones(dims + (dims[-1],))
        elif fam == 'missing_axis':
            v = np.ones(dims[:-1]) if nd > 1 else None
            if v is None:
                return res
        elif fam == 'square_full':
            n = dims[0] + 2
            v = np.ones((n,) * (nd + 1))
        elif fam == 'vector_N':
            v = np.ones((dims[0],))
            valid = nd == 1
        elif fam == 'flat':
            v = np.ones((int(np.prod(dims)),))
            valid = nd == 1
        elif fam == 'flat_full':
            v = np.ones((int(np.prod([n + 2 for n in dims])),))
            valid = nd == 1
        elif fam == 'empty':
            v = np.ones((0,) * nd)
        else:
            raise ValueError(fam)
        if not valid and hasattr(v, 'shape') and v.size == 1 and v.ndim not in (0, nd):
            return res      # size-1 array with another number of axes: treated as a scalar or rejected - unspecified
        if not valid and hasattr(v, 'shape'):
            # shapes that happen to coincide with a valid one on this particular mesh are valid
            valid = (v.size == 1) or (v.shape == dims) or (v.shape == tuple(n + 2 for n in dims))
        exc, cv = _outcome(lambda: pf.CellVariable(m, v))
        _expect(res, f"shape:{fam}", f"CellVariable({name}{dims}, array of shape {getattr(v, 'shape', 'scalar')})", exc,
                None if valid else ValueError)
        if exc is None and valid and tuple(np.asarray(cv.value).shape) != dims:
            res.fail(f"shape-result:{fam}", f"CellVariable built from {fam} has value shape {np.asarray(cv.value).shape} != {dims}")
        return res
    if k == 'badcoef':
        good = [np.array([1.0]), np.array([0.0]), np.array([0.0])]
        bad = dict(float=1.0, list=[1.0], int=1, tuple=(1.0,))
        args = list(good)
        args[case['pos']] = None if case['bad'] == 'None' else bad[case['bad']]
        exc, _ = _outcome(lambda: pf.boundary.BoundaryFace(*args))
        _expect(res, "badcoef", f"BoundaryFace with {case['bad']} in position {case['pos']}", exc, TypeError)
        return res
    if k == 'goodcoef':
        exc, _ = _outcome(lambda: pf.boundary.BoundaryFace(np.array([1.0]), np.array([0.0]), np.array([0.0])))
        _expect(res, "goodcoef", "BoundaryFace with arrays", exc, None)
        return res
    if k in ('badterm', 'goodterm'):
        name = case['grid']
        m, faces = small_grid(name)
        d = SMALL[name]
        n = int(np.prod(full_shape(d)))
        phi = pf.CellVariable(m, 1.0)
        base = [pf.transientTerm(phi, 1.0, 1.0), -pf.diffusionTerm(pf.FaceVariable(m, 1.0))]
        M = pf.linearSourceTerm(pf.CellVariable(m, 1.0))
        v = pf.constantSourceTerm(pf.CellVariable(m, 1.0))
        if k == 'goodterm':
            t = dict(matrix=M, vector=v, tuple=(M, v), negmatrix=-M * 0.5, scaledvector=-2.0 * v)[case['good']]
            exc, out = _outcome(lambda: pf.solvePDE(phi, base + [t]))
            _expect(res, f"goodterm:{name}", f"solvePDE with a {case['good']} term on {name}", exc, None)
            return res
        bad = {'str': "term", 'float': 1.0, 'int': 3, 'None': None, 'dict': {}, 'list': [M], 'arr3': np.zeros((2, 2, 2)),
               'arr0': np.array(1.0), 'tuple1': (M,), 'tuple3': (M, v, v), 'tuple_swapped': (v, M), 'tuple_none': (None, None),
               'listpair': [M, v]}[case['bad']]
        for terms in (base + [bad], [bad] + base):
            before = np.array(phi._value, copy=True)
            exc, out = _outcome(lambda: pf.solvePDE(phi, terms))
            _expect(res, f"badterm:{case['bad']}", f"solvePDE with a {case['bad']} object in the term list on {name}", exc, TypeError)
        return res
    if k == 'valid':
        return _check_valid(case, res)
    raise ValueError(k)


def _check_valid(case, res):
    g = case['grid']
    name = g['name']
    faces = [np.array(f, float) for f in g['faces']]
    d = dims_of(faces)
    nd = len(d)
    if case['form'] == 'NL':
        m = getattr(pf, name)(*[int(n) for n in d], *[float(f[-1] - f[0]) for f in faces])
    else:
        m = getattr(pf, name)(*faces)
    if tuple(int(x) for x in m.dims) != d:
        res.fail(f"valid-dims:{name}", f"{name} constructed with N={d} reports dims {tuple(m.dims)}")
        return res
    rng_arr = gen.expand('generic', case['seed'], full_shape(d))
    BC = pf.BoundaryConditions(m)
    from ..common import apply_bc
    apply_bc(BC, case['bc'])
    init = dict(scalar=0.5, dims=rng_arr[tuple(slice(1, -1) for _ in d)], full=rng_arr,
                size1=np.array([0.5]).reshape((1,) * nd))[case['init']]
    phi = pf.CellVariable(m, init, BC)
    if tuple(np.asarray(phi.value).shape) != d:
        res.fail(f"valid-value-shape:{name}", f"value shape {np.asarray(phi.value).shape} != {d}")
    if case['fvform'] == 'scalar':
        u = pf.FaceVariable(m, 0.3)
        D = pf.FaceVariable(m, 1.0)
    elif case['fvform'] == 'vector':
        u = pf.FaceVariable(m, np.array([0.3, -0.2, 0.1][:nd]))
        D = pf.FaceVariable(m, np.array([1.0, 2.0, 0.5][:nd]))
    else:
        comps = [np.full(s, 0.3 * (-1) ** i) for i, s in enumerate(face_shapes(d))]
        u = mk_face(m, comps)
        D = mk_face(m, [np.full(s, 1.0 + i) for i, s in enumerate(face_shapes(d))])
    # every documented label works
    for lab, ax in LABELS[name].items():
        for o in (m.cellsize, m.cellcenters, m.facecenters):
            getattr(o, lab)
        getattr(u, lab + 'value')
    tl = [pf.transientTerm(phi, 0.1, 1.0), -pf.diffusionTerm(D), pf.linearSourceTerm(pf.CellVariable(m, 0.1)),
          pf.constantSourceTerm(pf.CellVariable(m, 1.0))]
    if case['scheme'] == 'central':
        tl.append(pf.convectionTerm(u))
    elif case['scheme'] in ('upwind', 'tvd'):
        tl.append(pf.convectionUpwindTerm(u))
        if case['scheme'] == 'tvd':
            tl.append(pf.convectionTVDupwindRHSTerm(u, phi, pf.fluxLimiter(case['FL'])))
    pf.solvePDE(phi, tl)
    if not np.all(np.isfinite(np.asarray(phi.value))):
        res.discarded = True
    # explicit chain and auxiliaries
    pf.divergenceTerm(u * pf.linearMean(phi))
    pf.gradientTerm(phi)
    for f in (pf.arithmeticMean, pf.upwindMean):
        f(phi, u) if f is pf.upwindMean else f(phi)
    pf.cellLocations(m)
    pf.faceLocations(m)
    phi.plotprofile()
    phi.domainIntegral()
    pf.solveExplicitPDE(phi, 1e-3, pf.divergenceTerm(D * pf.gradientTerm(phi)))
    return res
