"""C04  solvePDE solves exactly the system its term list and BCs define, in place."""
import numpy as np
from hypothesis import strategies as st
from scipy.sparse import csr_array
from scipy.sparse.linalg import spsolve

import pyfvtool as pf

from .. import gen, oracle, problem
from ..common import (AXES, GRIDS, dims_of, full_shape, interior, is_periodic, make_grid, mk_face, nonuniform)
from ..result import Result

ID = "C04"
TOLERANCES = {"stored interior vs own solve of own assembly": 1e-11, "row residual of raw solver output": 1e-10,
              "system handed to external solver": "4 ulp per entry of the harness' own accumulation (same order)",
              "linearity": 1e-9}
RULE = ("Generated: grid (9 classes, N 1..4 / 1..3) x BCs (D/N/R face-wise, periodic) x a term list of 1..6 entries drawn from "
        "{transient pair, diffusion, central, upwind, upwind with direction field, TVD vector, linear source, constant source, "
        "arbitrary sparse matrix with interior rows, arbitrary vector with interior entries, explicit (M, v) pair}, each scaled "
        "by s in {1,-1,2.5,-0.3,1e3} (pairs element-wise), in random order, plus one dominant diagonal sink computed from the "
        "others so that the total is non-singular.  Oracle: the harness accumulates M*, v* itself and solves with its own "
        "spsolve; identity of the returned object; solveMatrixPDE on the hand-assembled system; recording external solver; "
        "interior-rows-only contract of every builder; affine dependence on (gamma, c, phi_old); cached boundary term "
        "unchanged.  Non-trivial = >=3 terms of >=2 kinds, >=1 negated/scaled, >=1 non-default BC side.  "
        "Distinct = SHA-1 of the canonical case.")
ASSUMPTIONS = ["periodic axes get equal end cells (K2) so that the stored ghost layer can be compared with the reference"]
KINDS = ['transient', 'diffusion', 'central', 'upwind', 'upwind-dir', 'tvd', 'linsrc', 'constsrc', 'rawmat', 'rawvec', 'pair']
SCALES = [1.0, -1.0, 2.5, -0.3, 1e3]


@st.composite
def _case(draw):
    g = draw(gen.grids())
    name = g['name']
    d = dims_of(g['faces'])
    bc = draw(gen.bcs(name, d, p_periodic=0.25))
    faces = [list(f) for f in g['faces']]
    for ax, ent in enumerate(bc):
        if is_periodic(ent):
            faces[ax] = problem.symmetric_ends(faces[ax])
    g = dict(g, faces=faces)
    n = draw(st.integers(1, 6))
    terms = []
    for _ in range(n):
        k = draw(st.sampled_from(KINDS))
        terms.append(dict(kind=k, scale=draw(st.sampled_from(SCALES)), seed=draw(st.integers(0, 2 ** 31 - 1)),
                          FL=draw(gen.limiter_names)))
    # 'late': the boundary conditions are edited AFTER the variable exists (all sides, or one side only), so the solve has
    # to notice the edit and rebuild its cached boundary system
    late = draw(st.sampled_from(['none', 'none', 'all', 'one', 'one', 'aug', 'cset']))
    return dict(grid=g, bc=bc, init=draw(gen.cell_interior(d)), terms=terms, ext=draw(st.booleans()),
                lin_seed=draw(st.integers(0, 2 ** 31 - 1)), late=late,
                late_side=[draw(st.integers(0, len(d) - 1)), draw(st.sampled_from(['lo', 'hi']))], presolve=draw(st.booleans()), explicit_first=draw(st.integers(0, 3)) == 0,
                # how the solution variable came to be: ordinary, built without a pre-calculated boundary term (public keyword),
                # or handed over by solveExplicitPDE (which builds such a variable)
                varkind=draw(st.sampled_from(['ordinary', 'ordinary', 'ordinary', 'precalc_false', 'from_explicit'])))


def strategy(tier):
    return _case()


def budget(tier):
    return 2500 if tier == "quick" else 100000


def classify(case):
    g = case['grid']
    d = dims_of(g['faces'])
    kinds = sorted({t['kind'] for t in case['terms']})
    return dict(grid=g['name'], N="x".join(map(str, d)), nterms=len(case['terms']), nkinds=len(kinds),
                neg=any(t['scale'] != 1.0 for t in case['terms']), ext=case['ext'], late=case.get('late', 'none'),
                varkind=case.get('varkind', 'ordinary'))


def _nondefault_bc(bc):
    for e in bc:
        if is_periodic(e):
            return True
        for s in ('lo', 'hi'):
            a, b, c = (np.array(e[s][k]) for k in 'abc')
            if not (np.all(a == 1) and np.all(b == 0) and np.all(c == 0)):
                return True
    return False


def nontrivial(case):
    kinds = {t['kind'] for t in case['terms']}
    return len(case['terms']) >= 3 and len(kinds) >= 2 and any(t['scale'] != 1.0 for t in case['terms']) and \
        _nondefault_bc(case['bc'])


def _build_term(m, d, phi, t):
    """returns (solvePDE term object, M or None, v or None) -- M, v are what the term contributes"""
    fs = full_shape(d)
    n = int(np.prod(fs))
    s = t['scale']
    k = t['kind']
    seed = t['seed']
    rows = interior(d, np.arange(n)).ravel()

    def face(style='generic', lo=-1.0, hi=1.0, off=0):
        from ..common import face_shapes
        return mk_face(m, [gen.expand(style, seed + 7 * i + off, sh, lo, hi) for i, sh in enumerate(face_shapes(d))])

    def cell(style='generic', lo=-1.0, hi=1.0, off=0):
        return pf.CellVariable(m, gen.expand(style, seed + off, d, lo, hi))
    if k == 'transient':
        M, v = pf.transientTerm(phi, 0.1 + (seed % 7), cell('pos', 0.1, 2.0))
        if s != 1.0:
            return (s * M, s * v), s * M, s * v
        return (M, v), M, v
    if k == 'diffusion':
        M = pf.diffusionTerm(face('pos', 0.1, 2.0))
    elif k == 'central':
        M = pf.convectionTerm(face())
    elif k == 'upwind':
        M = pf.convectionUpwindTerm(face())
    elif k == 'upwind-dir':
        M = pf.convectionUpwindTerm(face(), face('pos', off=100))
    elif k == 'linsrc':
        M = pf.linearSourceTerm(cell())
    elif k == 'rawmat':
        A = gen.expand('zeros', seed, (n, n))
        mask = np.zeros((n, n), bool)
        mask[rows, :] = True
        M = csr_array(np.where(mask, A, 0.0))
    elif k == 'tvd':
        v = pf.convectionTVDupwindRHSTerm(face(), phi, pf.fluxLimiter(t['FL']))
        return s * v, None, s * v
    elif k == 'constsrc':
        v = pf.constantSourceTerm(cell())
        return s * v, None, s * v
    elif k == 'rawvec':
        v = np.zeros(n)
        v[rows] = gen.expand('generic', seed, (len(rows),))
        return s * v, None, s * v
    elif k == 'pair':
        M = pf.diffusionTerm(face('pos', 0.1, 2.0))
        v = pf.constantSourceTerm(cell())
        return (s * M, s * v), s * M, s * v
    else:
        raise ValueError(k)
    return s * M, s * M, None


def _assemble(phi_bcterm, contribs, dominant):
    M = phi_bcterm[0].copy()
    v = phi_bcterm[1].copy()
    for Mi, vi in contribs:
        if Mi is not None:
            M += Mi
        if vi is not None:
            v += vi
    M += dominant
    return M, v


def _interior_only(res, name, d, what, M=None, v=None):
    n = int(np.prod(full_shape(d)))
    rows = set(interior(d, np.arange(n)).ravel().tolist())
    if M is not None:
        if M.shape != (n, n):
            res.fail(f"term-shape:{what}", f"{what} on {name}: matrix shape {M.shape} != {(n, n)}")
            return
        coo = M.tocoo()
        bad = [int(r) for r, val in zip(coo.row, coo.data) if val != 0 and int(r) not in rows]
        if bad:
            res.fail(f"term-ghost-row:{what}", f"{what} on {name} has entries in boundary (ghost) rows, e.g. row {bad[0]}")
    if v is not None:
        v = np.asarray(v)
        if v.shape != (n,):
            res.fail(f"term-shape:{what}", f"{what} on {name}: vector shape {v.shape} != {(n,)}")
            return
        g = [i for i in range(n) if i not in rows and v[i] != 0]
        if g:
            res.fail(f"term-ghost-row:{what}", f"{what} on {name} has a non-zero entry in a boundary (ghost) slot {g[0]}")


def check(case):
    res = Result()
    g = case['grid']
    name = g['name']
    d = dims_of(g['faces'])
    nd = len(d)
    n = int(np.prod(full_shape(d)))
    late = case.get('late', 'none')
    bc_final = case['bc']
    varkind = case.get('varkind', 'ordinary')
    if late == 'none':
        P = dict(name=name, faces=g['faces'], bc=case['bc'], init=case['init'])
        m, BC, phi = problem.build_var(P)
        if varkind == 'precalc_false':
            phi = pf.CellVariable(m, np.array(case['init'], float), BC, BCsTerm_precalc=False)
        elif varkind == 'from_explicit':
            phi = pf.solveExplicitPDE(phi, 1.0, np.zeros(n))
    else:
        from ..common import SIDES, default_bc_spec
        m = make_grid(name, g['faces'])
        phi = pf.CellVariable(m, np.array(case['init'], float))
        if case.get('presolve'):
            pf.solvePDE(phi, [pf.linearSourceTerm(pf.CellVariable(m, 1.0)), pf.constantSourceTerm(pf.CellVariable(m, np.array(case['init'], float)))])
        if late == 'cset':
            # all conditions known at construction; later ONLY the datum c of one side is re-assigned, through the property
            # setter, on a variable whose state is clean (a boundary value that changes between solves)
            from ..common import apply_bc
            import copy as _copy
            phi = pf.CellVariable(m, np.array(case['init'], float), apply_bc(pf.BoundaryConditions(m), case['bc']))
            if case.get('presolve'):
                pf.solvePDE(phi, [pf.linearSourceTerm(pf.CellVariable(m, 1.0)), pf.constantSourceTerm(pf.CellVariable(m, np.array(case['init'], float)))])
            else:
                phi.apply_BCs()
            ax, side = case['late_side']
            bf = getattr(phi.BCs, SIDES[ax][0 if side == 'lo' else 1])
            newc = 2.0 * np.array(case['bc'][ax][side]['c'], float) + 0.3
            bf.c = newc.reshape(bf.c.shape)
            bc_final = _copy.deepcopy(case['bc'])
            bc_final[ax][side]['c'] = newc.tolist()
        elif late == 'all':
            from ..common import apply_bc
            apply_bc(phi.BCs, case['bc'])
        elif late == 'aug':
            # the coefficients of one side are updated by augmented assignment on the attribute (face.c += v, face.b += v):
            # default no-flux (a=1,b=0,c=0) becomes a Robin condition  a*dphi/dn + b*phi = c
            ax, side = case['late_side']
            bf = getattr(phi.BCs, SIDES[ax][0 if side == 'lo' else 1])
            bf.c += 0.75
            bf.b += 0.5
            bf.a *= (2.0 if side == 'hi' else -2.0)
            bc_final = default_bc_spec(d)
            for e in bc_final:
                for sd in ('lo', 'hi'):
                    e[sd]['kind'] = 'N'
            shp = np.array(bc_final[ax][side]['a']).shape
            bc_final[ax][side] = dict(kind='R', a=np.full(shp, 2.0 if side == 'hi' else -2.0).tolist(), b=np.full(shp, 0.5).tolist(), c=np.full(shp, 0.75).tolist())
        else:
            ax, side = case['late_side']
            bc_final = default_bc_spec(d)
            for e in bc_final:
                for sd in ('lo', 'hi'):
                    e[sd]['kind'] = 'N'
            bc_final[ax][side] = dict(case['bc'][ax][side])
            bf = getattr(phi.BCs, SIDES[ax][0 if side == 'lo' else 1])
            for k in 'abc':
                arr = getattr(bf, k)
                arr[:] = np.array(case['bc'][ax][side][k], float).reshape(arr.shape)
        if case.get('explicit_first'):
            # the freshly edited variable first serves as the input of an explicit step (result discarded)
            pf.solveExplicitPDE(phi, 1.0, np.zeros(n))
        P = dict(name=name, faces=g['faces'], bc=bc_final, init=np.asarray(phi.value, float).tolist())
    geo = oracle.Geometry(name, g['faces'])
    terms, contribs = [], []
    term_specs = case['terms']
    if late != 'none':
        # a TVD vector built from a variable whose BCs were just edited would use its not-yet-updated ghost cells (the
        # caller's business, see apply_BCs docs); keep the term list a function of the visible state
        term_specs = [dict(t, kind='constsrc') if t['kind'] == 'tvd' else t for t in case['terms']]
    for t in term_specs:
        obj, Mi, vi = _build_term(m, d, phi, t)
        terms.append(obj)
        contribs.append((Mi, vi))
        if t['kind'] not in ('rawmat', 'rawvec'):
            _interior_only(res, name, d, t['kind'], Mi, vi)
    # dominant diagonal sink (makes the total non-singular whatever the signs)
    rowsum = np.zeros(n)
    for Mi, vi in contribs:
        if Mi is not None:
            rowsum += np.asarray(abs(Mi).sum(axis=1)).ravel()
    beta = 2.0 * rowsum.max() + 1.0
    dom = pf.linearSourceTerm(pf.CellVariable(m, beta))
    _interior_only(res, name, d, "linearSourceTerm", dom, None)
    # boundary term: no interior row
    Mbc, vbc = pf.boundaryConditionsTerm(phi.BCs)
    rows = interior(d, np.arange(n)).ravel()
    if abs(Mbc[rows, :]).sum() != 0 or np.any(vbc[rows] != 0):
        res.fail(f"bcterm-interior-row:{name}", f"boundaryConditionsTerm has entries in interior rows on {name}")
    Mstar, vstar = _assemble((Mbc, vbc), contribs, dom)
    has_cache = hasattr(phi, '_BCsTerm')
    cached_before = (phi._BCsTerm[0].copy(), phi._BCsTerm[1].copy()) if has_cache else None
    given = phi
    rec = {}

    def ext(M, b):
        rec['M'], rec['b'] = M.copy(), np.array(b, copy=True)
        rec['x'] = spsolve(M, b)
        return rec['x']
    tl = terms + [dom]
    out = pf.solvePDE(phi, tl, externalsolver=ext)
    if out is not given:
        res.fail(f"identity:{varkind}", f"solvePDE did not return the variable it was given (variable kind: {varkind})")
    x_own = spsolve(Mstar, vstar)
    if not np.all(np.isfinite(x_own)):
        res.discarded = True
        return res
    full = np.asarray(phi._value, float)
    sc = np.abs(x_own).max() + 1e-300
    # (iv) identical system
    dM = abs(rec['M'] - Mstar)
    tolM = 4 * np.finfo(float).eps * (abs(rec['M']) + abs(Mstar))
    if (dM - tolM).max() > 0:
        res.fail(f"system-matrix:{name}", f"matrix handed to the solver != boundary matrix + sum of matrix terms on {name}",
                 float(dM.max()))
    db = np.abs(rec['b'] - vstar)
    if np.any(db > 4 * np.finfo(float).eps * (np.abs(rec['b']) + np.abs(vstar))):
        res.fail(f"system-rhs:{name}", f"RHS handed to the solver != boundary RHS + sum of vector terms on {name}", float(db.max()))
    if not np.array_equal(np.asarray(phi.value), interior(d, rec['x'])):
        res.fail(f"stored-interior:{name}", f"interior of the external solver's result is not what is stored in the variable on {name}")
    # (ii)
    res.expect_small("own-solve", float(np.abs(np.asarray(phi.value) - interior(d, x_own)).max() / sc), 1e-11,
                     f"own-solve:{name}", f"stored interior != solution of the hand-assembled system on {name}")
    r = Mstar @ rec['x'] - vstar
    rsc = abs(Mstar) @ np.abs(rec['x']) + np.abs(vstar)
    rsc = rsc + 1e-3 * rsc.max() + 1e-300      # rows whose own terms are ~0 are measured on the system's scale
    res.expect_small("row-residual", float(np.max(np.abs(r) / rsc)), 1e-10, f"row-residual:{name}",
                     f"solver output does not satisfy (sum of matrix terms) phi = (sum of vector terms) row by row on {name}")
    ref = oracle.ghost_reference(geo, np.asarray(phi.value), bc_final)
    cnt = np.zeros(full.shape, int)
    for ax in range(nd):
        gh = np.zeros(full.shape[ax], bool)
        gh[[0, -1]] = True
        shp = [1] * nd
        shp[ax] = -1
        cnt = cnt + gh.reshape(shp)
    msk = cnt <= 1
    gs = np.abs(ref[msk]).max() + 1e-300
    res.expect_small("stored-ghosts", float(np.abs(full[msk] - ref[msk]).max() / gs), 1e-9, f"stored-ghosts:{name}",
                     f"stored ghost layer is not the boundary-condition ghost layer of the stored interior on {name}")
    # (iii) solveMatrixPDE on the hand-assembled system
    alt = pf.solveMatrixPDE(m, Mstar, vstar)
    res.expect_small("solveMatrixPDE", float(np.abs(np.asarray(alt.value) - np.asarray(phi.value)).max() / sc), 1e-11,
                     f"solveMatrixPDE:{name}", f"solvePDE != solveMatrixPDE on the hand-assembled system on {name}")
    # (vii) cached boundary term: untouched by the accumulation, and (after a late BC edit) rebuilt to the current BCs
    after = phi._BCsTerm if has_cache else (Mbc, vbc)
    if has_cache and late == 'none' and (abs(after[0] - cached_before[0]).sum() != 0 or not np.array_equal(after[1], cached_before[1])):
        res.fail(f"cached-bcterm:{name}", f"solvePDE changed the variable's cached boundary term on {name}")
    if abs(after[0] - Mbc).sum() != 0 or not np.array_equal(after[1], vbc):
        res.fail(f"cached-bcterm-current:{name}", f"after solvePDE the variable's cached boundary term is not the one its current boundary "
                 f"conditions give on {name} (BCs edited after construction: {late})")
    # default solver path gives the same numbers
    if not case['ext']:
        m2, BC2, ph2 = problem.build_var(P)
        terms2 = [_build_term(m2, d, ph2, t)[0] for t in term_specs] + [pf.linearSourceTerm(pf.CellVariable(m2, beta))]
        pf.solvePDE(ph2, terms2)
        res.expect_small("default-solver", float(np.abs(np.asarray(ph2._value) - full).max() / sc), 1e-11, f"default-solver:{name}",
                         f"solvePDE with the built-in solver != with an equivalent external solver on {name}")

    # (vi) affine in (gamma, boundary c, phi_old): S(x+y) - S(x) - S(y) + S(0) = 0
    def S(gam, cscale, old):
        Q = dict(P)
        Q['bc'] = []
        for ent in bc_final:
            e = dict(ent)
            for sd in ('lo', 'hi'):
                e[sd] = dict(ent[sd], c=(np.array(ent[sd]['c'], float) * cscale).tolist())
            Q['bc'].append(e)
        Q['init'] = old
        mm, _, ph = problem.build_var(Q)
        tl = [pf.transientTerm(ph, 0.37, 1.3), -pf.diffusionTerm(pf.FaceVariable(mm, 0.8)),
              pf.convectionUpwindTerm(pf.FaceVariable(mm, 0.4)), pf.constantSourceTerm(pf.CellVariable(mm, np.array(gam)))]
        pf.solvePDE(ph, tl)
        return np.asarray(ph._value, float)
    g1 = gen.expand('generic', case['lin_seed'], d)
    g2 = gen.expand('generic', case['lin_seed'] + 1, d)
    o1 = gen.expand('generic', case['lin_seed'] + 2, d)
    o2 = gen.expand('generic', case['lin_seed'] + 3, d)
    s00 = S(np.zeros(d), 0.0, np.zeros(d))
    sx = S(g1, 1.0, o1)
    sy = S(g2, -0.5, o2)
    sxy = S(g1 + g2, 0.5, o1 + o2)
    if all(np.all(np.isfinite(a)) for a in (s00, sx, sy, sxy)):
        scl = max(np.abs(sx).max(), np.abs(sy).max(), np.abs(sxy).max(), 1e-300)
        res.expect_small("affine", float(np.abs(sxy - sx - sy + s00).max() / scl), 1e-9, f"affine:{name}",
                         f"solution is not affine in (sources, boundary data c, previous values) on {name}")
    return res
