"""C08  Redundant axes, axis relabelling, mirroring and periodic shifts change nothing."""
import copy

import numpy as np
from hypothesis import strategies as st

import pyfvtool as pf

from .. import gen, problem
from ..common import (AXES, NDIM, bc_shape, dims_of, face_shapes, full_shape, interior, is_periodic, make_grid, mk_face, nonuniform)
from ..result import Result

ID = "C08"
TOL = 1e-9
TOLERANCES = {"paired solutions (relative to max |phi|)": "max(1e-9, 1e-12*cond(step matrix)); pairs with cond >= 1e8 discarded"}
RULE = ("Generated: a random low-dimensional problem P (all terms incl. TVD with any limiter, D/N/R/periodic BCs, alpha scalar/cell, "
        "sink, source, 2 steps) and one transformation: lift = insert a redundant axis (1..3 cells, non-uniform, no-flux or periodic, "
        "random invariant D and u components along it) for Grid1D->Grid2D (2 positions), Grid2D->Grid3D (3 positions), "
        "CylindricalGrid1D->CylindricalGrid2D, CylindricalGrid1D->PolarGrid2D, CylindricalGrid2D->CylindricalGrid3D, "
        "PolarGrid2D->CylindricalGrid3D, and two-step lifts Grid1D->Grid3D, CylindricalGrid1D->CylindricalGrid3D; on Cartesian grids "
        "every axis permutation, mirror of any axis, cyclic shift by k cells along a uniform periodic axis.  Oracle: the transformed "
        "problem yields the transformed solution (interior constant along the new axis and equal to P's; ghost layer included for "
        "permute/mirror/shift).  Non-trivial = redundant axis has >=2 cells or is periodic, its invariant velocity component != 0, "
        "scheme != none (lift); any permute/mirror/shift with a non-constant field.  Distinct = SHA-1 of the canonical case.")
ASSUMPTIONS = ["K7: cyclic shift is asserted for diffusion and central advection only (upwind/TVD treat the periodic seam as a boundary face)",
               "K2: periodic axes have equal end cells"]
LIFTS = [('Grid1D', 'Grid2D', 0), ('Grid1D', 'Grid2D', 1), ('Grid2D', 'Grid3D', 0), ('Grid2D', 'Grid3D', 1), ('Grid2D', 'Grid3D', 2),
         ('CylindricalGrid1D', 'CylindricalGrid2D', 1), ('CylindricalGrid1D', 'PolarGrid2D', 1),
         ('CylindricalGrid2D', 'CylindricalGrid3D', 1), ('PolarGrid2D', 'CylindricalGrid3D', 2)]
TWOSTEP = [('Grid1D', ['Grid2D', 'Grid3D'], [(0, 1), (1, 0), (1, 2), (0, 0)]),
           ('CylindricalGrid1D', ['CylindricalGrid2D', 'CylindricalGrid3D'], [(1, 1)]),
           ('CylindricalGrid1D', ['PolarGrid2D', 'CylindricalGrid3D'], [(1, 2)])]


# ----------------------------------------------------------------------------- transformations on problem dicts

def _cellkeys(P):
    return [k for k in ('init', 'alpha', 'beta', 'gamma') if P.get(k) is not None and not np.isscalar(P[k])]


def lift(P, newname, pos, newfaces, periodic, Dnew, unew):
    """insert a redundant axis at position pos of the new grid"""
    n = len(newfaces) - 1
    nd_old = len(P['faces'])
    Q = copy.deepcopy(P)
    Q['name'] = newname
    Q['faces'] = list(P['faces'][:pos]) + [list(newfaces)] + list(P['faces'][pos:])

    def rep(a, cnt=n):
        return np.repeat(np.expand_dims(np.asarray(a, float), pos), cnt, axis=pos)
    for k in _cellkeys(P):
        Q[k] = rep(P[k]).tolist()
    old_axes = [i for i in range(nd_old + 1) if i != pos]
    for key, new in (('D', Dnew), ('u', unew), ('uw', None if unew is None else np.abs(np.asarray(unew, float)) + 0.5)):
        if P.get(key) is None:
            continue
        comps = [None] * (nd_old + 1)
        for oi, ni in enumerate(old_axes):
            comps[ni] = rep(P[key][oi]).tolist()
        comps[pos] = rep(new, n + 1).tolist()        # invariant along the new axis: function of the other coordinates
        Q[key] = comps
    bc = []
    for oi, ent in enumerate(P['bc']):
        e = copy.deepcopy(ent)
        ni = old_axes[oi]
        for side in ('lo', 'hi'):
            for k in 'abc':
                a = np.asarray(ent[side][k], float)
                if nd_old == 1:
                    a2 = np.full((n,), a.ravel()[0])
                else:
                    p = pos if pos < ni else pos - 1
                    a2 = np.repeat(np.expand_dims(a.reshape(bc_shape(dims_of(P['faces']), oi)), p), n, axis=p)
                e[side][k] = a2.tolist()
        bc.append(e)
    shp = bc_shape(dims_of(Q['faces']), pos)
    newent = dict(periodic=(periodic if isinstance(periodic, str) else 'both') if periodic else 'none')
    for side in ('lo', 'hi'):
        newent[side] = dict(kind='N', a=np.ones(shp).tolist(), b=np.zeros(shp).tolist(), c=np.zeros(shp).tolist())
    bc.insert(pos, newent)
    Q['bc'] = bc
    return Q


def permute(P, perm):
    nd = len(perm)
    Q = copy.deepcopy(P)
    Q['faces'] = [P['faces'][p] for p in perm]
    for k in _cellkeys(P):
        Q[k] = np.transpose(np.asarray(P[k], float), perm).tolist()
    for key in ('D', 'u', 'uw'):
        if P.get(key) is not None:
            Q[key] = [np.transpose(np.asarray(P[key][p], float), perm).tolist() for p in perm]
    d_old = dims_of(P['faces'])
    bc = []
    for i, p in enumerate(perm):
        e = copy.deepcopy(P['bc'][p])
        if nd > 1:
            old_rest = [a for a in range(nd) if a != p]
            new_rest = [perm[j] for j in range(nd) if j != i]
            tr = [old_rest.index(a) for a in new_rest]
            for side in ('lo', 'hi'):
                for k in 'abc':
                    a = np.asarray(P['bc'][p][side][k], float).reshape(bc_shape(d_old, p))
                    e[side][k] = np.transpose(a, tr).tolist()
        bc.append(e)
    Q['bc'] = bc
    return Q


def mirror(P, ax):
    Q = copy.deepcopy(P)
    f = np.asarray(P['faces'][ax], float)
    Q['faces'][ax] = (-f[::-1]).tolist()
    for k in _cellkeys(P):
        Q[k] = np.flip(np.asarray(P[k], float), axis=ax).tolist()
    for key in ('D', 'u', 'uw'):
        if P.get(key) is not None:
            comps = [np.flip(np.asarray(c, float), axis=ax) for c in P[key]]
            if key in ('u', 'uw'):
                comps[ax] = -comps[ax]
            Q[key] = [c.tolist() for c in comps]
    d = dims_of(P['faces'])
    nd = len(d)
    bc = copy.deepcopy(P['bc'])
    for j in range(nd):
        if j == ax:
            lo, hi = copy.deepcopy(P['bc'][ax]['hi']), copy.deepcopy(P['bc'][ax]['lo'])
            lo['a'] = (-np.asarray(lo['a'], float)).tolist()
            hi['a'] = (-np.asarray(hi['a'], float)).tolist()
            bc[ax]['lo'], bc[ax]['hi'] = lo, hi
            p = P['bc'][ax].get('periodic', 'none')
            bc[ax]['periodic'] = dict(lo='hi', hi='lo').get(p, p)
        elif nd > 1:
            rest = [a for a in range(nd) if a != j]
            k_ax = rest.index(ax)
            for side in ('lo', 'hi'):
                for k in 'abc':
                    a = np.asarray(P['bc'][j][side][k], float).reshape(bc_shape(d, j))
                    bc[j][side][k] = np.flip(a, axis=k_ax).tolist()
    Q['bc'] = bc
    return Q


def shift(P, ax, k):
    """cyclic shift by k cells along a uniform periodic axis"""
    Q = copy.deepcopy(P)
    for key in _cellkeys(P):
        Q[key] = np.roll(np.asarray(P[key], float), k, axis=ax).tolist()
    d = dims_of(P['faces'])
    nd = len(d)
    for key in ('D', 'u', 'uw'):
        if P.get(key) is not None:
            comps = []
            for j, c in enumerate(P[key]):
                c = np.asarray(c, float)
                if j == ax:
                    core = np.take(c, range(0, d[ax]), axis=ax)          # faces 0..N-1 (face N is face 0)
                    core = np.roll(core, k, axis=ax)
                    c = np.concatenate([core, np.take(core, [0], axis=ax)], axis=ax)
                else:
                    c = np.roll(c, k, axis=ax)
                comps.append(c.tolist())
            Q[key] = comps
    for j in range(nd):
        if j != ax and nd > 1:
            rest = [a for a in range(nd) if a != j]
            k_ax = rest.index(ax)
            for side in ('lo', 'hi'):
                for kk in 'abc':
                    a = np.asarray(P['bc'][j][side][kk], float).reshape(bc_shape(d, j))
                    Q['bc'][j][side][kk] = np.roll(a, k, axis=k_ax).tolist()
    return Q


# ----------------------------------------------------------------------------- generators

@st.composite
def _lift_case(draw):
    two = draw(st.integers(0, 4)) == 0
    if two:
        low, chain, poss = draw(st.sampled_from(TWOSTEP))
        pos = list(draw(st.sampled_from(poss)))
        names = chain
    else:
        low, high, p = draw(st.sampled_from(LIFTS))
        names, pos = [high], [p]
    P = draw(problem.problems(classes=[low], nmax=4, nmax3=3, dirfield=True))
    steps = []
    cur = P
    for nm, p in zip(names, pos):
        kind = AXES[nm][p]
        n = draw(st.integers(1, 3))
        sp = draw(st.sampled_from(['uniform', 'random', 'ratio']))
        per = kind != 'r' and draw(st.booleans())
        if per:
            per = draw(st.sampled_from(['both', 'lo', 'hi']))
        nf = draw(gen.axis_faces(kind, n, sp))
        if per:
            nf = problem.symmetric_ends(nf)
        d_old = dims_of(cur['faces'])
        Dn = draw(gen.arrays(d_old, styles=('pos', 'contrast'), lo=0.1, hi=2.0, direct=False))
        un = draw(gen.arrays(d_old, styles=('generic', 'zeros', 'const', 'pos', 'neg'), direct=False))
        steps.append(dict(name=nm, pos=p, faces=nf, periodic=per, Dnew=Dn, unew=un))
        cur = lift(cur, nm, p, nf, per, Dn, un)
    return dict(kind='lift', P=P, lifts=steps)


@st.composite
def _cart_case(draw):
    name = draw(st.sampled_from(['Grid1D', 'Grid2D', 'Grid2D', 'Grid3D', 'Grid3D']))
    op = draw(st.sampled_from(['permute', 'mirror', 'shift'] if name != 'Grid1D' else ['mirror', 'shift']))
    nd = NDIM[name]
    if op == 'shift':
        ax = draw(st.integers(0, nd - 1))
        P = draw(problem.problems(classes=[name], schemes=('none', 'central'), periodic=False, nmax=4, nmax3=3))
        # make axis ax uniform and periodic
        f = P['faces'][ax]
        P['faces'][ax] = np.linspace(f[0], f[-1], len(f)).tolist()
        P['bc'][ax]['periodic'] = draw(st.sampled_from(['both', 'lo', 'hi']))
        d = dims_of(P['faces'])
        for key in ('D', 'u'):
            c = np.asarray(P[key][ax], float)
            first = np.take(c, [0], axis=ax)
            core = np.take(c, range(0, d[ax]), axis=ax)
            P[key][ax] = np.concatenate([core, first], axis=ax).tolist()    # seam face: one physical face
        return dict(kind='shift', P=P, ax=ax, k=draw(st.integers(1, max(1, d[ax]))))
    P = draw(problem.problems(classes=[name], nmax=4, nmax3=3, dirfield=True))
    if op == 'mirror':
        return dict(kind='mirror', P=P, ax=draw(st.integers(0, nd - 1)))
    perm = draw(st.permutations(list(range(nd))))
    return dict(kind='permute', P=P, perm=list(perm))


def strategy(tier):
    return st.one_of(_lift_case(), _cart_case())


def budget(tier):
    return 1500 if tier == "quick" else 100000


def classify(case):
    P = case['P']
    out = dict(kind=case['kind'], grid=P['name'], scheme=P['scheme'])
    if case['kind'] == 'lift':
        out['to'] = case['lifts'][-1]['name']
        out['pos'] = "-".join(str(s['pos']) for s in case['lifts'])
        out['per_new'] = any(s['periodic'] for s in case['lifts'])
    return out


def nontrivial(case):
    P = case['P']
    f = np.array(P['init'])
    if f.max() == f.min():
        return False
    if case['kind'] == 'lift':
        s = case['lifts'][-1]
        return (len(s['faces']) - 1 >= 2 or s['periodic']) and bool(np.any(np.array(s['unew']) != 0)) and P['scheme'] != 'none'
    return True


def _run(P):
    m, phi, out = problem.run_implicit(P, 2)
    return out[1:]


def check(case):
    res = Result()
    P = case['P']
    kind = case['kind']
    if any(is_periodic(e) for e in P['bc']):
        res.excluded.append('K2')
    base = _run(P)
    if not all(np.all(np.isfinite(x)) for x in base):
        res.discarded = True
        res.discard_reason = 'nonfinite'
        return res
    # the two members of a pair are solved through different matrices: their rounding differs by cond*eps
    cond = problem.step_condition(P)
    if not cond < 1e8:
        res.discarded = True
        res.discard_reason = 'ill-conditioned'
        return res
    TOLC = max(TOL, 1e-12 * cond)
    # scale of the data (a problem whose data are all zero has the zero solution: nothing to compare but rounding noise)
    dscale = float(np.abs(np.array(P['init'], float)).max())
    if P.get('gamma') is not None:
        dscale = max(dscale, float(np.abs(np.array(P['gamma'], float)).max()) * P['dt'])
    for e in P['bc']:
        for sd in ('lo', 'hi'):
            dscale = max(dscale, float(np.abs(np.array(e[sd]['c'], float)).max()))
    if dscale == 0.0:
        return res
    d = dims_of(P['faces'])
    nd = len(d)
    inn = tuple(slice(1, -1) for _ in d)
    if kind == 'lift':
        Q = P
        for s in case['lifts']:
            Q = lift(Q, s['name'], s['pos'], s['faces'], s['periodic'], s['Dnew'], s['unew'])
        # the lifted problem has its own conditioning (the coefficient along the new axis may span many decades)
        condq = problem.step_condition(Q)
        if not condq < 1e8:
            res.discarded = True
            res.discard_reason = 'ill-conditioned'
            return res
        TOLC = max(TOLC, 1e-12 * condq)
        got = _run(Q)
        dq = dims_of(Q['faces'])
        innq = tuple(slice(1, -1) for _ in dq)
        tag = f"lift:{P['name']}->{Q['name']}:pos{'-'.join(str(s['pos']) for s in case['lifts'])}"
        for k, (a, b) in enumerate(zip(base, got)):
            if not np.all(np.isfinite(b)):
                res.fail(f"{tag}:nonfinite", f"lifted problem gives non-finite values ({tag}, scheme {P['scheme']})")
                break
            want = a[inn]
            positions = sorted(s['pos'] for s in case['lifts']) if len(case['lifts']) == 1 else None
            # rebuild expected lifted interior by applying the same expand/repeat sequence
            w = want
            for s in case['lifts']:
                n = len(s['faces']) - 1
                w = np.repeat(np.expand_dims(w, s['pos']), n, axis=s['pos'])
            sc = max(np.abs(want).max(), 1e-6 * dscale)
            if not res.expect_small("lift", float(np.abs(b[innq] - w).max() / sc), TOLC, f"{tag}:{P['scheme']}",
                                    f"solution on {Q['name']} with a redundant axis differs from the solution on {P['name']} "
                                    f"(scheme {P['scheme']}, new axis periodic={[s['periodic'] for s in case['lifts']]}, step {k + 1})"):
                break
        return res
    if kind == 'permute':
        perm = case['perm']
        got = _run(permute(P, perm))
        tr = lambda a: np.transpose(a, perm)
        tag = f"permute:{P['name']}:{''.join(map(str, perm))}"
    elif kind == 'mirror':
        ax = case['ax']
        got = _run(mirror(P, ax))
        tr = lambda a: np.flip(a, axis=ax)
        tag = f"mirror:{P['name']}:ax{ax}"
    else:
        ax, kk = case['ax'], case['k']
        got = _run(shift(P, ax, kk))

        def tr(a):
            core = np.roll(a[inn], kk, axis=ax)
            out = np.array(a, copy=True)
            # compare interiors and the ghost layers of the other axes (rolled); the seam ghosts wrap
            full = np.roll(np.take(a, range(1, a.shape[ax] - 1), axis=ax), kk, axis=ax)
            lo = np.take(full, [-1], axis=ax)
            hi = np.take(full, [0], axis=ax)
            return np.concatenate([lo, full, hi], axis=ax)
        tag = f"shift:{P['name']}:ax{ax}"
        base = [_mask_corners(x) for x in base]
        got = [_mask_corners(x) for x in got]
    for k, (a, b) in enumerate(zip(base, got)):
        if not np.all(np.isfinite(b)):
            res.discarded = True
            break
        want = tr(a)
        if kind == 'shift':
            want = _mask_corners(want)
        sc = max(np.abs(a).max(), 1e-6 * dscale)
        if not res.expect_small(kind, float(np.abs(b - want).max() / sc) if b.shape == want.shape else float('inf'), TOLC,
                                f"{tag}:{P['scheme']}", f"{kind} of the problem does not {kind} the solution incl. boundary values "
                                f"({tag}, scheme {P['scheme']}, step {k + 1})",
                                known='K7' if (case.get('demo') == 'K7' and kind == 'shift' and P['scheme'] in ('upwind', 'tvd')) else None):
            break
    return res


def _mask_corners(a):
    a = np.array(a, copy=True)
    nd = a.ndim
    cnt = np.zeros(a.shape, int)
    for ax in range(nd):
        gh = np.zeros(a.shape[ax], bool)
        gh[[0, -1]] = True
        shp = [1] * nd
        shp[ax] = -1
        cnt = cnt + gh.reshape(shp)
    a[cnt >= 2] = 0.0
    return a
