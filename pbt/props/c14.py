"""C14  Variable algebra is elementwise, side-effect free and yields independent objects."""
import copy
import operator

import numpy as np
from hypothesis import strategies as st

import pyfvtool as pf

from .. import gen, oracle
from ..common import (AXES, GRIDS, SIDES, apply_bc, dims_of, face_shapes, full_shape, is_periodic, make_grid, mk_face)
from ..result import Result

ID = "C14"
NO_INT_DTYPE = True     # numpy itself refuses integer ** negative integer and the reference evaluation is in floating point
TOLERANCES = {"values vs numpy evaluation": "bitwise (NaN == NaN)", "ghost layer vs reference": 1e-12,
              "operands / results": "byte snapshots, np.shares_memory"}
RULE = ("Generated: expression trees of depth <= 3 over + - * / ** neg abs > >= < <= & | and the reflected + - * / ** (python scalar "
        "on the left), leaves = CellVariables with random BCs (D/N/R face-wise, periodic), python scalars, ndarrays (right operand "
        "only); the same for FaceVariables (leaves FaceVariable, python / numpy scalars); funceval / celleval / faceeval with 1..8 "
        "arguments from a pool of elementwise functions; copy().  Oracle: numpy evaluation of the same tree on the interior "
        "(component) arrays; byte snapshots of every operand (values, BC arrays, flags); BC object of the result equal in content "
        "to the left-most variable operand's, not shared; ghost layer of the result from the reference ghost model; "
        "cross-modification probes in both directions; np.shares_memory.  Non-trivial = depth >= 2 with >= 2 distinct variable "
        "leaves and non-default BCs on the left-most leaf.  Distinct = SHA-1 of the canonical case.")
ASSUMPTIONS = ["numpy scalars / arrays as LEFT operand of a CellVariable are outside the documented domain (numpy's own operator takes over via __array__)",
               "arrays are not valid FaceVariable operands (three differently shaped components)",
               "comparison / logical operators appear only at the root of a tree: their results are boolean-valued (for FaceVariables always, for "
               "CellVariables when the ghost layer is built by concatenation, i.e. 1-D periodic) and numpy itself refuses '-' on booleans",
               ]
BIN = {'+': operator.add, '-': operator.sub, '*': operator.mul, '/': operator.truediv, '**': operator.pow,
       '>': operator.gt, '>=': operator.ge, '<': operator.lt, '<=': operator.le, '&': operator.and_, '|': operator.or_}
REFLECTABLE = ['+', '-', '*', '/', '**']
FUNCS1 = {'sin': np.sin, 'exp': lambda x: np.exp(np.clip(x, -50, 50)), 'twice': lambda x: x * 2, 'abs': np.abs, 'sq': lambda x: x * x,
          'identity': lambda x: x, 'asarray': lambda x: np.asarray(x),
          # functions that hand back a VIEW of their argument (same memory, another array object)
          'slice_view': lambda x: x[...], 'reshape_view': lambda x: x.reshape(x.shape), 'ravel_view': lambda x: x.ravel().reshape(x.shape)}
FUNCS2 = {'add': lambda x, y: x + y, 'maximum': np.maximum, 'hyp': lambda x, y: np.sqrt(x * x + y * y), 'first': lambda x, y: x,
          'second_view': lambda x, y: y[...]}
FUNCS3 = {'where': lambda x, y, z: np.where(x > 0, y, z), 'fma': lambda x, y, z: x * y + z}
# any number of arguments (the evaluators accept 1..8): position-weighted sum, and a view of the last argument
FUNCSN = {'wsum': lambda *xs: sum((i + 1.0) * x for i, x in enumerate(xs)), 'last_view': lambda *xs: xs[-1][...]}
ALLFUNCS = {**FUNCS1, **FUNCS2, **FUNCS3, **FUNCSN}
MAXARGS = 8


# ----------------------------------------------------------------------------- tree generation

ARITH = ['+', '-', '*', '/', '**']


@st.composite
def tree(draw, depth, nvars, allow_arr=True, root=True, nested_bool=True):
    """root: at least one operator.  nested_bool=False (FaceVariables): comparison / logical operators only at the
    root, because their results are boolean arrays on which numpy itself refuses '-' and unary minus."""
    if not root and (depth == 0 or draw(st.integers(0, 5)) == 0):
        return ['var', draw(st.integers(0, nvars - 1))]
    ops = list(BIN) if (nested_bool or root) else ARITH
    sub = dict(depth=max(depth - 1, 0), nvars=nvars, allow_arr=allow_arr, root=False, nested_bool=nested_bool)
    form = draw(st.sampled_from(['un', 'bin', 'bin', 'bin_sc', 'sc_bin', 'bin_arr'] if allow_arr else ['un', 'bin', 'bin', 'bin_sc', 'sc_bin']))
    if form == 'un':
        return ['un', draw(st.sampled_from(['neg', 'abs'])), draw(tree(**sub))]
    if form == 'bin':
        return ['bin', draw(st.sampled_from(ops)), draw(tree(**sub)), draw(tree(**sub))]
    sc = ['sc', draw(st.sampled_from([2.0, -1.5, 0.5, 3, 0.0, 1.0, -2]))]
    if form == 'bin_sc':
        return ['bin', draw(st.sampled_from(ops)), draw(tree(**sub)), sc]
    if form == 'sc_bin':
        return ['bin', draw(st.sampled_from(REFLECTABLE)), sc, draw(tree(**sub))]
    return ['bin', draw(st.sampled_from(ops)), draw(tree(**sub)), ['arr', draw(st.integers(0, 2 ** 31 - 1))]]


@st.composite
def _case(draw):
    kind = draw(st.sampled_from(['cell', 'cell', 'face', 'funceval', 'faceeval', 'copy']))
    g = draw(gen.grids(nmax=3, nmax3=2))
    name = g['name']
    d = dims_of(g['faces'])
    nvars = draw(st.integers(1, 3))
    case = dict(kind=kind, grid=g, nvars=nvars)
    if kind in ('cell', 'funceval', 'copy'):
        case['vars'] = [dict(init=draw(gen.cell_interior(d, styles=('generic', 'int', 'quarter', 'pos', 'zeros'), lo=-2, hi=2)),
                             bc=draw(gen.bcs(name, d)), dirty=draw(st.sampled_from(['clean', 'clean', 'value', 'bc', 'value_changed', 'with_ghosts'])))
                        for _ in range(nvars)]
    else:
        case['vars'] = [dict(comps=draw(gen.face_field(d, styles=('generic', 'int', 'pos', 'zeros'), lo=-2, hi=2))) for _ in range(nvars)]
    if kind == 'cell':
        case['tree'] = draw(tree(3, nvars, nested_bool=False))
    elif kind == 'face':
        case['tree'] = draw(tree(3, nvars, allow_arr=False, nested_bool=False))
        case['npscalar'] = draw(st.booleans())
    elif kind in ('funceval', 'faceeval'):
        na = draw(st.sampled_from([1, 2, 3, 1, 2, 3, 4, 5, 6, 7, 8]))
        pool = {**{1: FUNCS1, 2: FUNCS2, 3: FUNCS3}.get(na, {}), **FUNCSN}
        names = list(pool)
        case['func'] = draw(st.sampled_from(sorted(names)))
        case['args'] = [draw(st.integers(0, nvars - 1)) for _ in range(na)]
        case['alias'] = draw(st.sampled_from(['funceval', 'celleval'])) if kind == 'funceval' else 'faceeval'
    return case


def strategy(tier):
    return _case()


EXHAUSTIVE_NOTE = ("every operator x operand form {variable-variable, variable-scalar, scalar-variable (reflected + - * / **), variable-ndarray} and both "
                   "unary operators, at depth 1, for CellVariables and FaceVariables on all 9 grid classes (fixed small grid, non-default BCs); "
                   "funceval/celleval/faceeval with every pool function and every arity 1..8 (operands with different BCs, either one first); copy()")
ENUM_FACES = dict(x=[0.0, 0.4, 1.0], r=[0.5, 0.8, 1.5], thc=[0.0, 1.0, 2.5], ths=[0.4, 1.0, 2.0], ph=[0.0, 1.5, 2.5])


def enumerate_cases(tier):
    from ..common import bc_shape
    for name in GRIDS:
        kinds = AXES[name]
        faces = [ENUM_FACES[k] for k in kinds]
        d = dims_of(faces)
        g = dict(name=name, faces=faces, spacing=['random'] * len(kinds))
        bc = []
        for ax in range(len(d)):
            shp = bc_shape(d, ax)
            bc.append(dict(periodic='none',
                           lo=dict(kind='R', a=(-gen.expand('generic', 1 + ax, shp, 0.3, 2.0)).tolist(), b=gen.expand('generic', 2 + ax, shp, 0.3, 2.0).tolist(),
                                   c=gen.expand('generic', 3 + ax, shp).tolist()),
                           hi=dict(kind='D', a=np.zeros(shp).tolist(), b=np.ones(shp).tolist(), c=gen.expand('generic', 4 + ax, shp).tolist())))
        bc2 = []    # the second variable has other boundary conditions: whose BCs a result carries is part of the property
        for ax in range(len(d)):
            shp = bc_shape(d, ax)
            bc2.append(dict(periodic='none',
                            lo=dict(kind='D', a=np.zeros(shp).tolist(), b=np.ones(shp).tolist(), c=gen.expand('generic', 34 + ax, shp).tolist()),
                            hi=dict(kind='R', a=gen.expand('generic', 31 + ax, shp, 0.3, 2.0).tolist(), b=gen.expand('generic', 32 + ax, shp, 0.3, 2.0).tolist(),
                                    c=gen.expand('generic', 33 + ax, shp).tolist())))
        cvars = [dict(init=(gen.expand('quarter', 11 + i, d) + 0.125).tolist(), bc=[bc, bc2][i], dirty='clean') for i in range(2)]
        fvars = [dict(comps=[(gen.expand('int', 21 + 5 * i + j, sh) + 0.5 * j).tolist() for j, sh in enumerate(face_shapes(d))]) for i in range(2)]
        trees = [['un', 'neg', ['var', 0]], ['un', 'abs', ['var', 0]]]
        for op in BIN:
            trees.append(['bin', op, ['var', 0], ['var', 1]])
            trees.append(['bin', op, ['var', 1], ['var', 0]])
            trees.append(['bin', op, ['var', 0], ['sc', 2.0]])
            trees.append(['bin', op, ['var', 0], ['sc', -1.5]])
        for op in REFLECTABLE:
            trees.append(['bin', op, ['sc', 2.0], ['var', 0]])
            trees.append(['bin', op, ['sc', 3], ['var', 1]])
        for t in trees:
            yield dict(kind='cell', grid=g, nvars=2, vars=cvars, tree=t, enumerated=True)
            yield dict(kind='face', grid=g, nvars=2, vars=fvars, tree=t, npscalar=False, enumerated=True)
        for op in BIN:
            yield dict(kind='cell', grid=g, nvars=2, vars=cvars, tree=['bin', op, ['var', 0], ['arr', 7]], enumerated=True)
        for pool, na in ((FUNCS1, 1), (FUNCS2, 2), (FUNCS3, 3)):
            for fn in sorted(pool):
                for alias in ('funceval', 'celleval'):
                    yield dict(kind='funceval', grid=g, nvars=2, vars=cvars, func=fn, args=[0, 1, 0][:na], alias=alias, enumerated=True)
                yield dict(kind='faceeval', grid=g, nvars=2, vars=fvars, func=fn, args=[0, 1, 0][:na], alias='faceeval', enumerated=True)
        for na in range(1, MAXARGS + 1):
            for fn in sorted(FUNCSN):
                for args in ([0] + [1] * (na - 1), [1] + [0] * (na - 1)):
                    for alias in ('funceval', 'celleval'):
                        yield dict(kind='funceval', grid=g, nvars=2, vars=cvars, func=fn, args=args, alias=alias, enumerated=True)
                    yield dict(kind='faceeval', grid=g, nvars=2, vars=fvars, func=fn, args=args, alias='faceeval', enumerated=True)
        yield dict(kind='copy', grid=g, nvars=1, vars=[dict(cvars[0], dirty='value')], enumerated=True)
        yield dict(kind='copy', grid=g, nvars=1, vars=[dict(cvars[0], dirty='bc')], enumerated=True)
        yield dict(kind='copy', grid=g, nvars=1, vars=[dict(cvars[0], dirty='value_changed')], enumerated=True)
        yield dict(kind='copy', grid=g, nvars=1, vars=[dict(cvars[0], dirty='with_ghosts')], enumerated=True)


def budget(tier):
    return 3000 if tier == "quick" else 400000


def _depth(t):
    if t[0] in ('var', 'sc', 'arr'):
        return 0
    if t[0] == 'un':
        return 1 + _depth(t[2])
    return 1 + max(_depth(t[2]), _depth(t[3]))


def _leaves(t, out=None):
    out = [] if out is None else out
    if t[0] == 'var':
        out.append(t[1])
    elif t[0] == 'un':
        _leaves(t[2], out)
    elif t[0] == 'bin':
        _leaves(t[2], out)
        _leaves(t[3], out)
    return out


def _ops(t, out=None):
    out = set() if out is None else out
    if t[0] == 'un':
        out.add(t[1])
        _ops(t[2], out)
    elif t[0] == 'bin':
        out.add(('r' if t[2][0] == 'sc' else '') + t[1] + ('arr' if t[3][0] == 'arr' else ''))
        _ops(t[2], out)
        _ops(t[3], out)
    return out


def classify(case):
    out = dict(kind=case['kind'], grid=case['grid']['name'])
    if 'tree' in case:
        out['depth'] = _depth(case['tree'])
        for o in _ops(case['tree']):
            out[f"op[{o}]"] = 1
    if 'func' in case:
        out['func'] = case['func']
    return out


def _nondefault(bc):
    for e in bc:
        if is_periodic(e):
            return True
        for s in ('lo', 'hi'):
            if e[s]['kind'] != 'N' or np.any(np.array(e[s]['c']) != 0):
                return True
    return False


def nontrivial(case):
    if case['kind'] == 'cell':
        lv = _leaves(case['tree'])
        return _depth(case['tree']) >= 2 and len(set(lv)) >= 2 and _nondefault(case['vars'][lv[0]]['bc'])
    if case['kind'] == 'face':
        return _depth(case['tree']) >= 2 and len(set(_leaves(case['tree']))) >= 2
    if case['kind'] in ('funceval', 'copy'):
        return _nondefault(case['vars'][case['args'][0] if 'args' in case else 0]['bc'])
    return True


# ----------------------------------------------------------------------------- snapshots

FACES6 = ('left', 'right', 'bottom', 'top', 'back', 'front')


def snap_cell(v):
    out = [np.array(v._value, copy=True).tobytes(), bool(v._value.modified)]
    for f in FACES6:
        bf = getattr(v.BCs, f)
        out += [np.array(bf.a).tobytes(), np.array(bf.b).tobytes(), np.array(bf.c).tobytes(), bool(bf.periodic), bool(bf.modified)]
    return out


def bc_content(BCs):
    out = []
    for f in FACES6:
        bf = getattr(BCs, f)
        out += [np.array(bf.a).tobytes(), np.array(bf.b).tobytes(), np.array(bf.c).tobytes(), bool(bf.periodic)]
    return out


def bc_arrays(BCs):
    return [getattr(getattr(BCs, f), k) for f in FACES6 for k in ('_a', '_b', '_c')]


def snap_face(v):
    return [np.array(c, copy=True).tobytes() for c in (v._xvalue, v._yvalue, v._zvalue)]


def _build_cells(m, case, d):
    out = []
    for spec in case['vars']:
        BC = apply_bc(pf.BoundaryConditions(m), spec['bc'])
        v = pf.CellVariable(m, np.array(spec['init'], float), BC)
        if spec.get('dirty') == 'value':
            v.value[...] = np.array(spec['init'], float)      # same numbers, raises the dirty bit
        elif spec.get('dirty') == 'bc':
            v.BCs.left.c[:] = np.array(v.BCs.left.c)
        elif spec.get('dirty') == 'value_changed':
            v.value[...] = np.array(spec['init'], float) * 0.5 + 1.0      # other numbers: the ghost layer is now stale
        elif spec.get('dirty') == 'with_ghosts':
            # the documented constructor form that takes the ghost cells as given (not those the BCs would produce)
            full = np.array(v._value, float) + 0.25
            v = pf.CellVariable(m, full, BC)
        out.append(v)
    return out


def _eval_cell(t, vars_, d):
    """returns (pf object or scalar/array, numpy reference, carrier variable index or None)"""
    k = t[0]
    if k == 'var':
        v = vars_[t[1]]
        return v, np.array(v.value, dtype=float), t[1]
    if k == 'sc':
        return t[1], t[1], None
    if k == 'arr':
        a = gen.expand('quarter', t[1], d) + 0.25
        return a, a, None
    if k == 'un':
        o, r, c = _eval_cell(t[2], vars_, d)
        if t[1] == 'neg':
            return -o, -r, c
        return abs(o), np.abs(r), c
    op = BIN[t[1]]
    lo, lr, lc = _eval_cell(t[2], vars_, d)
    ro, rr, rc = _eval_cell(t[3], vars_, d)
    with np.errstate(all='ignore'):
        got = op(lo, ro)
        if t[1] == '&':
            ref = np.logical_and(lr, rr)
        elif t[1] == '|':
            ref = np.logical_or(lr, rr)
        else:
            ref = op(lr, rr)
        ref = np.asarray(ref, dtype=float)
    return got, ref, (lc if lc is not None else rc)


def _same(a, b):
    a, b = np.asarray(a, float), np.asarray(b, float)
    return a.shape == b.shape and bool(np.all((a == b) | (np.isnan(a) & np.isnan(b))))


def check(case):
    res = Result()
    g = case['grid']
    name = g['name']
    m = make_grid(name, g['faces'])
    d = dims_of(g['faces'])
    nd = len(d)
    kind = case['kind']
    geo = oracle.Geometry(name, g['faces'])
    if kind in ('cell', 'funceval', 'copy'):
        vars_ = _build_cells(m, case, d)
        before = [snap_cell(v) for v in vars_]
        if kind == 'cell':
            got, ref, carrier = _eval_cell(case['tree'], vars_, d)
            what = f"expression {case['tree']}"
        elif kind == 'funceval':
            args = [vars_[i] for i in case['args']]
            f = ALLFUNCS[case['func']]
            fn = pf.funceval if case['alias'] == 'funceval' else pf.celleval
            with np.errstate(all='ignore'):
                got = fn(f, *args)
                ref = np.asarray(f(*[np.array(a.value, float) for a in args]), float)
            carrier = case['args'][0]
            what = f"{case['alias']}({case['func']}, {len(args)} args)"
        else:
            got = vars_[0].copy()
            ref = np.array(vars_[0].value, float)
            carrier = 0
            what = "copy()"
        if type(got) is not pf.CellVariable:
            res.fail(f"type:{kind}", f"{what} returned {type(got).__name__}, not a CellVariable")
            return res
        if got.domain is not m:
            res.fail(f"domain:{kind}", f"{what}: result lives on another mesh object")
        if not _same(got.value, ref):
            res.fail(f"value:{kind}", f"{what}: interior values differ from the numpy evaluation on {name}")
        after = [snap_cell(v) for v in vars_]
        if after != before:
            res.fail(f"operand-mutated:{kind}", f"{what}: an operand changed (values, BC arrays or flags) on {name}")
        # BC object: content of the left-most variable operand, not shared
        src = vars_[carrier]
        if got.BCs is src.BCs or any(got.BCs is v.BCs for v in vars_):
            res.fail(f"bc-shared:{kind}", f"{what}: result shares its BoundaryConditions object with an operand")
        elif bc_content(got.BCs) != bc_content(src.BCs):
            res.fail(f"bc-content:{kind}", f"{what}: result does not carry the boundary conditions of its left-most variable operand")
        for arr in bc_arrays(got.BCs) + [got._value]:
            for v in vars_:
                for oarr in bc_arrays(v.BCs) + [v._value]:
                    if arr.size and oarr.size and np.shares_memory(arr, oarr):
                        res.fail(f"aliasing:{kind}", f"{what}: result shares memory with an operand")
        # ghost layer consistent with (interior, BCs of the carrier)
        if kind == 'copy':
            if not _same(got._value, vars_[0]._value):
                res.fail("copy-unequal", "copy() is not equal to the original (full value array)")
            if bool(got._value.modified) != bool(vars_[0]._value.modified) and case['vars'][0].get('dirty') == 'value':
                res.fail("copy-dirty-flag", "copy() of a variable with edited values lost the 'needs update' state")
        elif np.all(np.isfinite(ref)):
            want = oracle.ghost_reference(geo, ref, case['vars'][carrier]['bc'])
            full = np.asarray(got._value, float)
            cnt = np.zeros(full.shape, int)
            for ax in range(nd):
                gh = np.zeros(full.shape[ax], bool)
                gh[[0, -1]] = True
                shp = [1] * nd
                shp[ax] = -1
                cnt = cnt + gh.reshape(shp)
            msk = cnt == 1
            if np.all(np.isfinite(want[msk])):
                sc = max(np.abs(want[msk]).max(), np.abs(ref).max(), 1e-300)
                res.expect_small("result-ghosts", float(np.abs(full[msk] - want[msk]).max() / sc), 1e-12, f"result-ghosts:{kind}",
                                 f"{what}: boundary values of the result are not consistent with its boundary conditions on {name}")
        # cross-modification probes
        rsnap = snap_cell(got)
        for v in vars_:
            v.value[...] = np.asarray(v.value) + 1.0
            v.BCs.left.a[:] = 7.0
            v.BCs.right.periodic = not v.BCs.right.periodic if False else v.BCs.right.periodic
        if snap_cell(got) != rsnap:
            res.fail(f"operand-edit-leaks:{kind}", f"{what}: editing an operand afterwards changed the result")
        osnap = [snap_cell(v) for v in vars_]
        got.value[...] = -3.0
        got.BCs.left.a[:] = -5.0
        got.BCs.right.c[:] = 11.0
        if [snap_cell(v) for v in vars_] != osnap:
            res.fail(f"result-edit-leaks:{kind}", f"{what}: editing the result changed an operand")
        return res

    # ---- FaceVariables
    fvars = [mk_face(m, spec['comps']) for spec in case['vars']]
    before = [snap_face(v) for v in fvars]
    if kind == 'face':
        def ev(t):
            k = t[0]
            if k == 'var':
                v = fvars[t[1]]
                return v, [np.array(c, float) for c in (v._xvalue, v._yvalue, v._zvalue)]
            if k == 'sc':
                s = np.float64(t[1]) if case.get('npscalar') and False else t[1]
                return s, None
            if k == 'un':
                o, r = ev(t[2])
                return (-o, [-c for c in r]) if t[1] == 'neg' else (abs(o), [np.abs(c) for c in r])
            lo, lr = ev(t[2])
            ro, rr = ev(t[3])
            op = BIN[t[1]]
            with np.errstate(all='ignore'):
                got = op(lo, ro)
                ref = []
                for i in range(3):
                    a = lr[i] if lr is not None else t[2][1]
                    b = rr[i] if rr is not None else t[3][1]
                    if t[1] == '&':
                        r = np.logical_and(a, b)
                    elif t[1] == '|':
                        r = np.logical_or(a, b)
                    else:
                        r = op(a, b)
                    ref.append(np.asarray(r))
            return got, ref
        got, ref = ev(case['tree'])
        what = f"FaceVariable expression {case['tree']}"
    else:
        args = [fvars[i] for i in case['args']]
        f = ALLFUNCS[case['func']]
        with np.errstate(all='ignore'):
            got = pf.faceeval(f, *args)
            ref = [np.asarray(f(*[np.array(c, float) for c in comps]))
                   for comps in zip(*[(a._xvalue, a._yvalue, a._zvalue) for a in args])]
        what = f"faceeval({case['func']}, {len(args)} args)"
    if type(got) is not pf.FaceVariable:
        res.fail(f"type:{kind}", f"{what} returned {type(got).__name__}")
        return res
    for i, (gc, rc) in enumerate(zip((got._xvalue, got._yvalue, got._zvalue), ref)):
        if not _same(np.asarray(gc, float), np.asarray(rc, float)):
            res.fail(f"value:{kind}", f"{what}: component {i} differs from the numpy evaluation on {name}")
    if [snap_face(v) for v in fvars] != before:
        res.fail(f"operand-mutated:{kind}", f"{what}: an operand changed on {name}")
    for gc in (got._xvalue, got._yvalue, got._zvalue):
        for v in fvars:
            for oc in (v._xvalue, v._yvalue, v._zvalue):
                if np.asarray(gc).size and np.asarray(oc).size and np.shares_memory(gc, oc):
                    known = None
                    res.fail(f"aliasing:{kind}", f"{what}: result shares memory with an operand", known=known)
    osnap = [snap_face(v) for v in fvars]
    for gc in (got._xvalue, got._yvalue, got._zvalue):
        if np.asarray(gc).size and np.asarray(gc).dtype != bool:
            gc[...] = 9.0
    if [snap_face(v) for v in fvars] != osnap:
        known = None
        res.fail(f"result-edit-leaks:{kind}", f"{what}: editing the result changed an operand", known=known)
    return res
