"""C17  Results do not depend on the unit system; terms are linear in their coefficient fields."""
import copy

import numpy as np
from hypothesis import strategies as st

import pyfvtool as pf

from .. import gen, oracle, problem
from ..common import (AXES, dims_of, face_shapes, full_shape, interior, is_periodic, make_grid, mk_face, nonuniform)
from ..result import Result

ID = "C17"
TOLERANCES = {"solution / K (full array incl. ghost layer)": "max(1e-9, 1e-12*cond(step matrix)); cond >= 1e8 discarded", "term linearity (relative to sum of |entries|)": 1e-12}
RULE = ("Generated: a random problem (9 classes, all spacings, BCs D/N/R/periodic, term combinations incl. TVD with any limiter, "
        "alpha scalar/cell, sink, source, 1..3 steps) and scale factors L, T, K = 10^[-6..6] (each 1 with probability 1/4).  "
        "Metamorphic relation: faces of length-like axes x L (angles unchanged), D x L^2/T, u x L/T, beta/T, gamma x K/T, dt x T, "
        "alpha unchanged, boundary a x L, b unchanged, c x K, initial x K  =>  full solution array x K.  Term level: T(sD)=sT(D), "
        "T(D1+D2)=T(D1)+T(D2) for diffusion, central, upwind at fixed direction field, sources, TVD at fixed limiter/field/direction.  "
        "Non-trivial = >=2 of L,T,K differ from 1 by >=1e3, >=1 Robin or Neumann side, curvilinear class or TVD.  "
        "Distinct = SHA-1 of the canonical case.")
ASSUMPTIONS = ["K4: cases in which a non-zero face gradient of either unit system is below 1e-12 in magnitude are excluded for TVD "
               "(absolute threshold 1e-16 in _fsign); exact zeros are scale invariant and kept",
               "periodic axes have equal end cells (K2)"]


@st.composite
def _case(draw):
    P = draw(problem.problems(dirfield=True))
    def sc():
        return 1.0 if draw(st.integers(0, 3)) == 0 else 10.0 ** draw(st.integers(-6, 6))
    d = dims_of(P['faces'])
    if draw(st.integers(0, 3)) == 0:
        # whole-number initial field (handed over as an integer array when the case's `_dtype` says so; its rescaled twin
        # is necessarily floating point): the representation of the numbers is not a unit either
        P['init'] = np.round(3.0 * np.array(P['init'], float)).tolist()
    return dict(P=P, L=sc(), T=sc(), K=sc(), s=draw(st.sampled_from([-1.0, 2.5, 1e-6, 1e6, 0.0])),
                seed=draw(st.integers(0, 2 ** 31 - 1)))


def strategy(tier):
    return _case()


def budget(tier):
    return 2000 if tier == "quick" else 80000


def classify(case):
    P = case['P']
    d = dims_of(P['faces'])
    f = lambda x: int(round(np.log10(x)))
    return dict(grid=P['name'], N="x".join(map(str, d)), scheme=P['scheme'], L=f(case['L']), T=f(case['T']), K=f(case['K']))


def nontrivial(case):
    P = case['P']
    big = sum(abs(np.log10(case[k])) >= 3 for k in 'LTK')
    nr = any((not is_periodic(e)) and any(e[s]['kind'] in ('N', 'R') for s in ('lo', 'hi')) for e in P['bc'])
    curv = P['name'] not in ('Grid1D', 'Grid2D', 'Grid3D')
    return big >= 2 and nr and (curv or P['scheme'] == 'tvd')


def rescale(P, L, T, K):
    Q = copy.deepcopy(P)
    kinds = AXES[P['name']]
    Q['faces'] = [(np.array(f, float) * (L if k in ('x', 'r') else 1.0)).tolist() for f, k in zip(P['faces'], kinds)]
    if P.get('D') is not None:
        Q['D'] = [(np.array(c, float) * (L * L / T)).tolist() for c in P['D']]
    Q['u'] = [(np.array(c, float) * (L / T)).tolist() for c in P['u']]
    if P.get('uw') is not None:
        Q['uw'] = [(np.array(c, float) * (L / T)).tolist() for c in P['uw']]
    if P.get('beta') is not None:
        Q['beta'] = (np.array(P['beta'], float) / T).tolist()
    if P.get('gamma') is not None:
        Q['gamma'] = (np.array(P['gamma'], float) * (K / T)).tolist()
    Q['dt'] = P['dt'] * T
    Q['init'] = (np.array(P['init'], float) * K).tolist()
    for e in Q['bc']:
        for sd in ('lo', 'hi'):
            e[sd]['a'] = (np.array(e[sd]['a'], float) * L).tolist()
            e[sd]['c'] = (np.array(e[sd]['c'], float) * K).tolist()
    return Q


def _tiny_gradients(m, d, full, nd):
    """smallest non-zero |face gradient| (the quantity _fsign thresholds)"""
    cv = pf.CellVariable(m, np.array(full, float), BCsTerm_precalc=False)
    g = pf.gradientTerm(cv)
    mn = np.inf
    for c in (g._xvalue, g._yvalue, g._zvalue)[:nd]:
        c = np.abs(np.asarray(c, float))
        nz = c[c > 0]
        if nz.size:
            mn = min(mn, nz.min())
    # the code's own ratio uses (phi_i+1 - phi_i)/dx without the metric factor: bound it through the cell sizes too
    return mn


def check(case):
    res = Result()
    P = case['P']
    name = P['name']
    d = dims_of(P['faces'])
    nd = len(d)
    L, T, K = case['L'], case['T'], case['K']
    if any(is_periodic(e) for e in P['bc']):
        res.excluded.append('K2')
    Q = rescale(P, L, T, K)
    m1, _, phi1 = problem.build_var(P)
    m2, _, phi2 = problem.build_var(Q)
    tag = f"{P['scheme']}:{name}"
    if P.get('bc_style', 'passed') == 'passed':
        # the initial state, boundary values included, already obeys the relation (ghost value = f(a/dx, b, c, interior))
        a0, b0 = np.asarray(phi1._value, float), np.asarray(phi2._value, float) / K
        if np.all(np.isfinite(a0)) and np.all(np.isfinite(b0)):
            res.expect_small("rescaled-initial-state", float(np.abs(a0 - b0).max() / max(np.abs(a0).max(), 1e-300)), 1e-9, f"units-initial:{name}",
                             f"boundary values of the freshly constructed variable in rescaled units (L={L:g}, T={T:g}, K={K:g}) are not K times the original on {name}")
    coefs1, coefs2 = problem.make_coefs(m1, P), problem.make_coefs(m2, Q)
    # the two unit systems are solved through differently scaled matrices: their rounding differs by cond*eps
    cond = problem.step_condition(P)
    if not cond < 1e8:
        res.discarded = True
        res.discard_reason = 'ill-conditioned'
        return res
    TOLC = max(1e-9, 1e-12 * cond)
    for k in range(P['steps']):
        if P['scheme'] == 'tvd':
            # K4 exclusion: plain differences over centre distances, as the TVD routines form them
            tiny = False
            for mm, ph in ((m1, phi1), (m2, phi2)):
                v = np.asarray(ph._value, float)
                for ax in range(nd):
                    dd = np.abs(np.diff(v, axis=ax))
                    wg = [mm.cellsize._x, mm.cellsize._y, mm.cellsize._z][ax]
                    dx = 0.5 * (wg[:-1] + wg[1:])
                    shp = [1] * nd
                    shp[ax] = -1
                    gq = dd / dx.reshape(shp)
                    nz = gq[gq > 0]
                    if nz.size and nz.min() < 1e-12:
                        tiny = True
            if tiny and not case.get('demo_k4'):
                res.excluded.append('K4')
                return res
        problem.step_implicit(m1, phi1, P, coefs=coefs1)
        problem.step_implicit(m2, phi2, Q, coefs=coefs2)
        a = np.asarray(phi1._value, float)
        b = np.asarray(phi2._value, float) / K
        if not (np.all(np.isfinite(a)) and np.all(np.isfinite(b))):
            res.discarded = True
            return res
        sc = max(np.abs(a).max(), 1e-300)
        if not res.expect_small("rescaled-solution", float(np.abs(a - b).max() / sc), TOLC, f"units:{tag}",
                                f"solution in rescaled units (L={L:g}, T={T:g}, K={K:g}) is not K times the original ({tag}, step {k + 1})",
                                known='K4' if (case.get('demo_k4') and P['scheme'] == 'tvd') else None):
            break

    # ---- term-level linearity in the coefficient field
    s = case['s']
    seed = case['seed']
    fs = face_shapes(d)
    c1 = [gen.expand('generic', seed + i, sh) for i, sh in enumerate(fs)]
    c2 = [gen.expand('zeros', seed + 10 + i, sh) for i, sh in enumerate(fs)]
    w = [gen.expand('pos', seed + 20 + i, sh) * np.where(gen.expand('generic', seed + 30 + i, sh) > 0, 1.0, -1.0) for i, sh in enumerate(fs)]
    F1, F2, W = mk_face(m1, c1), mk_face(m1, c2), mk_face(m1, w)
    Fs = mk_face(m1, [s * c for c in c1])
    F12 = mk_face(m1, [a + b for a, b in zip(c1, c2)])
    phi = pf.CellVariable(m1, gen.expand('generic', seed + 40, full_shape(d)), BCsTerm_precalc=False)
    FL = pf.fluxLimiter(P['FL'])

    def dense(x):
        return x.toarray() if hasattr(x, 'toarray') else np.asarray(x, float)
    builders = [("diffusion", lambda F: pf.diffusionTerm(F)), ("central", lambda F: pf.convectionTerm(F)),
                ("upwind-dir", lambda F: pf.convectionUpwindTerm(F, W)), ("divergence", lambda F: pf.divergenceTerm(F)),
                ("tvd-dir", lambda F: pf.convectionTVDupwindRHSTerm(F, phi, FL, W))]
    for nm, f in builders:
        t1, t2, ts, t12 = dense(f(F1)), dense(f(F2)), dense(f(Fs)), dense(f(F12))
        if not all(np.all(np.isfinite(x)) for x in (t1, t2, ts, t12)):
            res.fail(f"linearity-nonfinite:{nm}:{name}", f"{nm} term not finite on {name}")
            continue
        sc = np.abs(t1).max() + np.abs(t2).max() + 1e-300
        res.expect_small(f"homog-{nm}", float(np.abs(ts - s * t1).max() / (abs(s) * sc + 1e-300)) if s != 0 else float(np.abs(ts).max()),
                         1e-12, f"homogeneity:{nm}:{name}", f"{nm}(s*coef) != s*{nm}(coef) on {name} (s={s:g})")
        res.expect_small(f"additive-{nm}", float(np.abs(t12 - t1 - t2).max() / sc), 1e-12, f"additivity:{nm}:{name}",
                         f"{nm}(c1+c2) != {nm}(c1)+{nm}(c2) on {name}")
    b1 = gen.expand('generic', seed + 50, d)
    b2 = gen.expand('generic', seed + 51, d)
    for nm, f in (("linearSource", pf.linearSourceTerm), ("constantSource", pf.constantSourceTerm)):
        t1, t2 = dense(f(pf.CellVariable(m1, b1))), dense(f(pf.CellVariable(m1, b2)))
        ts, t12 = dense(f(pf.CellVariable(m1, s * b1))), dense(f(pf.CellVariable(m1, b1 + b2)))
        sc = np.abs(t1).max() + np.abs(t2).max() + 1e-300
        res.expect_small(f"homog-{nm}", float(np.abs(ts - s * t1).max() / (abs(s) * sc + 1e-300)) if s != 0 else float(np.abs(ts).max()),
                         1e-12, f"homogeneity:{nm}:{name}", f"{nm}(s*coef) != s*{nm}(coef) on {name}")
        res.expect_small(f"additive-{nm}", float(np.abs(t12 - t1 - t2).max() / sc), 1e-12, f"additivity:{nm}:{name}",
                         f"{nm}(c1+c2) != {nm}(c1)+{nm}(c2) on {name}")
    return res
