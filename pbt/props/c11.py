"""C11  Cell-to-face means are true means of the two adjacent cells in any dimension."""
import numpy as np
from hypothesis import strategies as st

import pyfvtool as pf

from .. import gen, oracle
from ..common import AXES, GRIDS, NDIM, dims_of, face_comps, full_shape, make_grid, mk_face, nonuniform
from ..result import Result

ID = "C11"
TOLERANCES = {"reference formulas": 1e-12, "locality / 1D-2D-3D agreement on lifted data": "bitwise / 1e-13",
              "bounds and ordering": "1e-12 relative"}
RULE = ("Generated: grid (9 classes, N 1..4 / 1..3 in 3-D, all spacings) x positive full cell arrays (ghost cells included) "
        "with exact zeros injected (isolated and adjacent), arbitrary-sign arrays for linear/upwind means, linear functions "
        "of the coordinates, velocity sign patterns incl. zero.  Oracle = reference width-weighted arithmetic / geometric / "
        "harmonic means and linear interpolation of the two cells adjacent along the axis, donor-cell rule for upwindMean.  "
        "Non-trivial = non-uniform spacing and non-constant data; zero class additionally needs >=1 zero next to a non-zero "
        "and >=1 pair of adjacent zeros.  Distinct = SHA-1 of the canonical case.")
ASSUMPTIONS = ["geometric/harmonic means are asserted on non-negative data only (the property's domain)"]


@st.composite
def _case(draw):
    g = draw(gen.grids())
    # unit diversity: lengths (not angles) and field values over many decades - a mean must not care
    gs = draw(st.sampled_from([1.0, 1.0, 1e-3, 1e3, 1e-6, 100.0]))
    vs = draw(st.sampled_from([1.0, 1.0, 1e-9, 1e7, 1e-3, 1e4]))
    if gs != 1.0:
        g = dict(g, faces=[[x * gs for x in f] if k in ('x', 'r') else f for f, k in zip(g['faces'], AXES[g['name']])])
    d = dims_of(g['faces'])
    fs = full_shape(d)
    style = draw(st.sampled_from(['pos', 'contrast', 'posint']))
    seed = draw(st.integers(0, 2 ** 31 - 1))
    if style == 'posint':
        pos = np.abs(gen.expand('int', seed, fs)) + 1.0
    else:
        pos = gen.expand(style, seed, fs, 0.1, 5.0)
    zmode = draw(st.sampled_from(['none', 'none', 'sparse', 'dense', 'line']))
    zseed = draw(st.integers(0, 2 ** 31 - 1))
    rng = np.random.Generator(np.random.PCG64(zseed))
    posz = pos.copy()
    if zmode == 'sparse':
        posz[rng.random(fs) < 0.15] = 0.0
    elif zmode == 'dense':
        posz[rng.random(fs) < 0.5] = 0.0
    elif zmode == 'line':
        ax = int(rng.integers(len(d)))
        idx = [slice(None)] * len(d)
        idx[ax] = slice(0, 2)
        posz[tuple(idx)] = 0.0
    anyf = draw(gen.cell_full(d, styles=('generic', 'int', 'quarter', 'zeros')))
    u = draw(gen.face_field(d, styles=('generic', 'zeros', 'pos', 'neg', 'int')))
    lin = [draw(st.sampled_from([0.0, 1.0, -2.0, 0.5])) for _ in range(len(d) + 1)]
    return dict(grid=g, pos=(posz * vs).tolist(), zmode=zmode, any=(np.array(anyf) * vs).tolist(), u=u, lin=lin, gscale=gs, vscale=vs)


def strategy(tier):
    return _case()


EXHAUSTIVE_NOTE = ("every zero / non-zero pattern of the full cell array (ghost cells included) on a 2-cell Grid1D, CylindricalGrid1D, "
                   "SphericalGrid1D (16 patterns each), a 1x1 and a 2x1 Grid2D / PolarGrid2D (512 / 4096 patterns) - the zero-handling "
                   "branches of geometric and harmonic means for all adjacency patterns")


def enumerate_cases(tier):
    import itertools
    meshes = [('Grid1D', [[0.0, 0.3, 1.0]]), ('CylindricalGrid1D', [[0.5, 0.8, 1.5]]), ('SphericalGrid1D', [[0.0, 0.4, 1.0]]),
              ('Grid2D', [[0.0, 1.0], [0.0, 0.5]]), ('PolarGrid2D', [[0.5, 1.5], [0.0, 1.0]]),
              ('Grid2D', [[0.0, 0.3, 1.0], [0.0, 0.5]]), ('CylindricalGrid2D', [[0.5, 0.8, 1.5], [0.0, 0.5]])]
    for name, faces in meshes:
        d = dims_of(faces)
        fs = full_shape(d)
        n = int(np.prod(fs))
        base = gen.expand('pos', 5, fs, 0.1, 5.0)
        anyf = gen.expand('quarter', 6, fs).tolist()
        u = [gen.expand('int', 7 + i, sh).tolist() for i, sh in enumerate(__import__('pbt.common', fromlist=['face_shapes']).face_shapes(d))]
        g = dict(name=name, faces=faces, spacing=['random'] * len(d))
        for bits in itertools.product((0, 1), repeat=n):
            if n > 9 and sum(bits) > 0 and (hash(bits) % 1 != 0):
                continue
            pos = (base * np.array(bits, float).reshape(fs)).tolist()
            yield dict(grid=g, pos=pos, zmode='enum', any=anyf, u=u, lin=[0.5, 1.0, -2.0][:len(d) + 1])


def budget(tier):
    return 4000 if tier == "quick" else 500000


def classify(case):
    g = case['grid']
    d = dims_of(g['faces'])
    return dict(grid=g['name'], N="x".join(map(str, d)), nonuniform=nonuniform(g['faces']), zeros=case['zmode'],
                gscale=case.get('gscale', 1.0), vscale=case.get('vscale', 1.0))


def _adjacent_zero_stats(a):
    a = np.asarray(a)
    nz_pair = zz_pair = False
    for ax in range(a.ndim):
        lo = np.take(a, range(0, a.shape[ax] - 1), axis=ax)
        hi = np.take(a, range(1, a.shape[ax]), axis=ax)
        zz_pair |= bool(np.any((lo == 0) & (hi == 0)))
        nz_pair |= bool(np.any((lo == 0) != (hi == 0)))
    return nz_pair, zz_pair


def nontrivial(case):
    g = case['grid']
    if not nonuniform(g['faces']):
        return False
    p = np.array(case['pos'])
    if p.max() == p.min():
        return False
    if case['zmode'] != 'none':
        nz, zz = _adjacent_zero_stats(p)
        return nz and zz
    return True


def _pairs(full, ax, nd):
    """(minus, plus) cell values adjacent to every face normal to ax; interior in the other axes"""
    sl = [slice(1, -1)] * nd
    sl[ax] = slice(None)
    line = np.asarray(full)[tuple(sl)]
    lo = np.take(line, range(0, line.shape[ax] - 1), axis=ax)
    hi = np.take(line, range(1, line.shape[ax]), axis=ax)
    return lo, hi


def _w(geo, ax, nd):
    wg = geo.wg[ax]
    shp = [1] * nd
    shp[ax] = -1
    return wg[:-1].reshape(shp), wg[1:].reshape(shp)


def _rel(a, b):
    a, b = np.asarray(a, float), np.asarray(b, float)
    if a.shape != b.shape:
        return float('inf')
    if not (np.all(np.isfinite(a)) and np.all(np.isfinite(b))):
        return float('inf')
    sc = np.maximum(np.abs(a), np.abs(b))
    sc = np.where(sc == 0, 1.0, sc)
    return float((np.abs(a - b) / sc).max()) if a.size else 0.0


def check(case):
    res = Result()
    g = case['grid']
    name = g['name']
    m = make_grid(name, g['faces'])
    d = dims_of(g['faces'])
    nd = len(d)
    geo = oracle.Geometry(name, g['faces'])
    pos = np.array(case['pos'], float)
    anyf = np.array(case['any'], float)
    cp = pf.CellVariable(m, pos, BCsTerm_precalc=False)
    ca = pf.CellVariable(m, anyf, BCsTerm_precalc=False)
    means = dict(arithmetic=face_comps(pf.arithmeticMean(cp), nd), geometric=face_comps(pf.geometricMean(cp), nd),
                 harmonic=face_comps(pf.harmonicMean(cp), nd), linear=face_comps(pf.linearMean(cp), nd))
    lin_any = face_comps(pf.linearMean(ca), nd)
    ari_any = face_comps(pf.arithmeticMean(ca), nd)
    tagd = f"{nd}D"
    for ax in range(nd):
        lo, hi = _pairs(pos, ax, nd)
        wl, wh = _w(geo, ax, nd)
        with np.errstate(all='ignore'):
            ref = dict(
                arithmetic=(wl * lo + wh * hi) / (wl + wh),
                linear=(wh * lo + wl * hi) / (wl + wh),
                geometric=np.where((lo == 0) | (hi == 0), 0.0,
                                   np.exp((wl * np.log(np.where(lo > 0, lo, 1.0)) + wh * np.log(np.where(hi > 0, hi, 1.0))) / (wl + wh))),
                harmonic=np.where((lo == 0) | (hi == 0), 0.0,
                                  (wl + wh) / (wl / np.where(lo > 0, lo, 1.0) + wh / np.where(hi > 0, hi, 1.0))))
        mn, mx = np.minimum(lo, hi), np.maximum(lo, hi)
        for k in ('arithmetic', 'geometric', 'harmonic', 'linear'):
            got = np.asarray(means[k][ax], float)
            if got.shape != ref[k].shape:
                res.fail(f"{k}-shape:{tagd}", f"{k}Mean component {ax} has shape {got.shape}, expected {ref[k].shape} ({name})")
                continue
            if not np.all(np.isfinite(got)):
                res.fail(f"{k}-nonfinite:{tagd}", f"{k}Mean is not finite on non-negative data with zeros ({name}, axis {ax}, zeros={case['zmode']})",
                         float('inf'))
                continue
            res.expect_small(f"{k}-ref", _rel(got, ref[k]), 1e-12, f"{k}-ref:{tagd}:ax{ax}",
                             f"{k}Mean != width-weighted reference of the two adjacent cells ({name}, axis {ax})")
            slack = 1e-12 * np.maximum(mx, 1e-300)
            if np.any(got < mn - slack) or np.any(got > mx + slack):
                res.fail(f"{k}-bounds:{tagd}:ax{ax}", f"{k}Mean outside [min,max] of the adjacent cells ({name}, axis {ax})")
        h, gm, am = (np.asarray(means[k][ax], float) for k in ('harmonic', 'geometric', 'arithmetic'))
        if h.shape == gm.shape == am.shape and np.all(np.isfinite(h)) and np.all(np.isfinite(gm)):
            tol = 1e-12 * np.maximum(am, 1e-300)
            if np.any(h > gm + tol) or np.any(gm > am + tol):
                res.fail(f"ordering:{tagd}:ax{ax}", f"harmonic <= geometric <= arithmetic violated ({name}, axis {ax})")
        # arbitrary-sign data: linear / arithmetic against reference
        lo, hi = _pairs(anyf, ax, nd)
        res.expect_small("linear-any", _abs_scaled(lin_any[ax], (wh * lo + wl * hi) / (wl + wh), lo, hi) if np.asarray(lin_any[ax]).shape == lo.shape else float('inf'),
                         1e-12, f"linear-ref:{tagd}:ax{ax}", f"linearMean != linear interpolation ({name}, axis {ax})")
        res.expect_small("arithmetic-any", _abs_scaled(ari_any[ax], (wl * lo + wh * hi) / (wl + wh), lo, hi), 1e-12,
                         f"arithmetic-ref:{tagd}:ax{ax}", f"arithmeticMean != width-weighted mean ({name}, axis {ax})")

    # linearMean exact on linear functions of the coordinates at the face positions
    lin = case['lin']
    centres = []
    for ax in range(nd):
        c = geo.c[ax]
        w = geo.w[ax]
        centres.append(np.concatenate([[c[0] - w[0]], c, [c[-1] + w[-1]]]))
    grids = np.meshgrid(*centres, indexing='ij')
    field = lin[0] + sum(lin[k + 1] * grids[k] for k in range(nd))
    cl = pf.CellVariable(m, field, BCsTerm_precalc=False)
    lm = face_comps(pf.linearMean(cl), nd)
    scale = max(np.abs(field).max(), 1e-300)
    for ax in range(nd):
        pts = [geo.faces[b] if b == ax else geo.c[b] for b in range(nd)]
        gg = np.meshgrid(*pts, indexing='ij')
        want = lin[0] + sum(lin[k + 1] * gg[k] for k in range(nd))
        got = np.asarray(lm[ax], float)
        e = float(np.abs(got - want).max() / scale) if got.shape == want.shape else float('inf')
        res.expect_small("linear-exact", e, 1e-12, f"linear-exact:{tagd}:ax{ax}",
                         f"linearMean does not reproduce a linear field at the face positions ({name}, axis {ax})")

    # upwindMean: donor cell / boundary value on inflow boundary faces / average at u == 0
    u = mk_face(m, case['u'])
    um = face_comps(pf.upwindMean(ca, u), nd)
    for ax in range(nd):
        lo, hi = _pairs(anyf, ax, nd)
        lo = lo.copy()
        hi = hi.copy()
        avg = 0.5 * (lo + hi)
        first = [slice(None)] * nd
        last = [slice(None)] * nd
        first[ax] = 0
        last[ax] = -1
        lo[tuple(first)] = avg[tuple(first)]      # inflow through the low boundary face: boundary value
        hi[tuple(last)] = avg[tuple(last)]
        uc = np.array(case['u'][ax], float)
        want = np.where(uc > 0, lo, np.where(uc < 0, hi, avg))
        got = np.asarray(um[ax], float)
        ok = got.shape == want.shape and np.all(got == want)
        if not ok:
            e = float(np.abs(got - want).max()) if got.shape == want.shape else float('inf')
            if not (e <= 1e-15 * max(np.abs(anyf).max(), 1e-300) * 4):
                res.fail(f"upwind-donor:{tagd}:ax{ax}", f"upwindMean != donor cell / boundary value / average rule ({name}, axis {ax})", e)

    # locality: perturbing any cell not adjacent to a face along that axis leaves the face value unchanged (bitwise);
    # implemented by comparing with the mean of an array where all NON-adjacent cells are scrambled per axis:
    # face values along ax depend only on the interior-in-other-axes lines -> change the ghost cells of the other axes
    if nd > 1:
        scr = pos.copy()
        cnt = np.zeros(pos.shape, int)
        for ax in range(nd):
            ghost = np.zeros(pos.shape[ax], bool)
            ghost[[0, -1]] = True
            shp = [1] * nd
            shp[ax] = -1
            cnt = cnt + ghost.reshape(shp)
        scr[cnt >= 2] = 123.456       # edges / corners
        cs = pf.CellVariable(m, scr, BCsTerm_precalc=False)
        for k, f in (('arithmetic', pf.arithmeticMean), ('geometric', pf.geometricMean), ('harmonic', pf.harmonicMean),
                     ('linear', pf.linearMean)):
            for ax, (a, b) in enumerate(zip(face_comps(f(cs), nd), means[k])):
                a, b = np.asarray(a), np.asarray(b)
                same = a.shape == b.shape and np.all((a == b) | (np.isnan(a) & np.isnan(b)))
                if not same:
                    res.fail(f"{k}-locality:{tagd}", f"{k}Mean face values depend on edge/corner ghost cells ({name}, axis {ax})")

    # 1D / 2D / 3D variants agree on lifted data: take the line through the first interior index of the other axes
    if nd > 1:
        for ax in range(nd):
            kind = AXES[name][ax]
            f1 = np.array(g['faces'][ax], float)
            m1 = pf.Grid1D(f1)
            sl = [1] * nd
            sl[ax] = slice(None)
            line_pos = pos[tuple(sl)]
            line_any = anyf[tuple(sl)]
            c1p = pf.CellVariable(m1, line_pos, BCsTerm_precalc=False)
            c1a = pf.CellVariable(m1, line_any, BCsTerm_precalc=False)
            osl = [0] * nd
            osl[ax] = slice(None)
            for k, f, src, c1 in (('arithmetic', pf.arithmeticMean, means, c1p), ('geometric', pf.geometricMean, means, c1p),
                                  ('harmonic', pf.harmonicMean, means, c1p), ('linear', pf.linearMean, means, c1p)):
                a = np.asarray(src[k][ax], float)[tuple(osl)]
                b = np.asarray(f(c1)._xvalue, float)
                if a.shape != b.shape:
                    res.fail(f"{k}-lift:{tagd}", f"{k}Mean: {nd}D result has a different face count than 1D ({name})")
                    continue
                bad = ~(np.isfinite(a) & np.isfinite(b))
                if np.any(bad):
                    res.fail(f"{k}-lift-nonfinite:{tagd}", f"{k}Mean: non-finite value in {nd}D or 1D variant on the same data ({name}, zeros={case['zmode']})")
                    continue
                res.expect_small(f"{k}-lift", _rel(a, b), 1e-13, f"{k}-lift:{tagd}",
                                 f"{k}Mean: {nd}D variant disagrees with the 1D variant on the same line of data ({name}, axis {ax})")
    return res


def _abs_scaled(got, want, lo, hi):
    got, want = np.asarray(got, float), np.asarray(want, float)
    if got.shape != want.shape or not np.all(np.isfinite(got)):
        return float('inf')
    sc = np.maximum(np.abs(lo), np.abs(hi))
    sc = np.where(sc == 0, 1.0, sc)
    return float((np.abs(got - want) / sc).max()) if got.size else 0.0
