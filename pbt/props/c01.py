"""C01  Conservation: interior face fluxes cancel; boundary faces carry the only change of the integral."""
import numpy as np
from hypothesis import strategies as st

import pyfvtool as pf

from .. import gen, oracle, problem
from ..common import (AXES, GRIDS, NDIM, dims_of, face_shapes, full_shape, interior, make_grid, mk_face,
                      nonuniform)
from ..result import Result

ID = "C01"
RTOL = 1e-9
TOLERANCES = {"operator level (relative to sum |V*coefficient|)": RTOL,
              "solver level": "(1e-10 + 1e-13*dt*||A||) * sum|V*phi| per step"}
RULE = ("Two generated case kinds.  'op': grid (9 classes, N 1..4 / 1..3 in 3-D, random/geometric/uniform spacing, "
        "r0 = 0 or offset) x face fields D>=0, u, direction field w (every sign pattern incl. zeros), cell field, "
        "limiter; checked (a) closed: coefficients zeroed on boundary faces, volume-weighted column sums of every "
        "term matrix vanish for EVERY basis field, TVD/divergence sums vanish; (b) open: volume-weighted sum equals "
        "the oracle's boundary-face flux functional (true face areas, boundary-face formulas) for every basis field. "
        "'solve': closed problems (no sources, no-flux walls with zero wall-normal velocity, periodic axes) stepped "
        "1..5 times implicitly (dt over 8 decades) and explicitly (dt||A||<=0.5): domainIntegral constant; open "
        "problems: one implicit step, change of the integral = dt * net boundary flux of the new field. "
        "Non-trivial = non-uniform spacing on >=1 axis, >=2 cells on >=1 axis, field not constant, >=1 non-zero "
        "interior-face coefficient.  Distinct = SHA-1 of the canonical case.")
ASSUMPTIONS = ["SphericalGrid3D is checked under the discretisation's own measure r_c^2 dr sin(th_c) dth dphi (K1: its "
               "cellvolume is not the conserved measure)",
               "periodic axes are generated with equal first and last cell (K2) and, for upwind/TVD, zero seam velocity (K7)",
               "direction field w zero only where u is zero (K5)"]


def measure(name, m, geo):
    if name == 'SphericalGrid3D':
        return geo.Vd, geo.Ad
    return np.asarray(m.cellvolume, dtype=float), geo.A


# ----------------------------------------------------------------------------- generators

@st.composite
def _op_case(draw):
    g = draw(gen.grids())
    d = dims_of(g['faces'])
    D = draw(gen.face_field(d, styles=('pos', 'const', 'generic', 'zeros'), lo=0.0, hi=2.0))
    u = draw(gen.face_field(d))
    w = draw(gen.face_field(d, styles=('generic', 'pos', 'neg', 'int')))
    w2, moved = [], 0
    for uc, wc in zip(u, w):
        uc, wc = np.array(uc, float), np.array(wc, float)
        bad = (wc == 0) & (uc != 0)
        moved += int(bad.sum())
        wc[bad] = 1.0
        w2.append(wc.tolist())
    F = draw(gen.face_field(d))
    phi = draw(gen.cell_full(d, styles=('generic', 'int', 'quarter', 'zeros')))
    return dict(kind='op', grid=g, D=D, u=u, w=w2, F=F, phi=phi, FL=draw(gen.limiter_names), k5_moved=moved)


@st.composite
def _solve_case(draw):
    g = draw(gen.grids(nmax=4, nmax3=3))
    name = g['name']
    d = dims_of(g['faces'])
    nd = len(d)
    closed = draw(st.booleans())
    scheme = draw(st.sampled_from(['none', 'central', 'upwind', 'tvd']))
    upw = scheme in ('upwind', 'tvd')
    per = []
    faces = [list(f) for f in g['faces']]
    for ax, k in enumerate(AXES[name]):
        # periodic only where the two end faces are one physical face (not r, not the polar angle)
        if k not in ('r', 'ths') and draw(st.integers(0, 2)) == 0:
            per.append(ax)
            faces[ax] = problem.symmetric_ends(faces[ax])
    g = dict(g, faces=faces)
    P = dict(name=name, faces=faces, scheme=scheme, FL=draw(gen.limiter_names))
    P['D'] = draw(gen.diffusivity(d)) if (scheme == 'none' or draw(st.booleans())) else None
    if P['D'] is not None:
        # the two end faces of a periodic axis are one physical face: one diffusivity
        Dn = []
        for ax, c in enumerate(P['D']):
            c = np.array(c, dtype=float)
            if ax in per:
                lo = [slice(None)] * nd
                hi = [slice(None)] * nd
                lo[ax] = 0
                hi[ax] = -1
                c[tuple(hi)] = c[tuple(lo)]
            Dn.append(c.tolist())
        P['D'] = Dn
    P['init'] = draw(gen.cell_interior(d, styles=('generic', 'int', 'quarter', 'zeros')))
    P['alpha'] = 1.0
    P['beta'] = None
    P['gamma'] = None
    P['steps'] = draw(st.integers(1, 5)) if closed else 1
    P['theta'] = 10.0 ** draw(st.floats(-4, 4))         # dt = theta / ||A||
    P['theta_explicit'] = draw(st.floats(0.01, 0.5))
    P['bc_style'] = draw(st.sampled_from(['passed', 'passed', 'late', 'late_min', 'late_c', 'shared_late', 'late_explicit']))
    flagvar = {ax: draw(st.sampled_from(['both', 'both', 'lo', 'hi'])) for ax in per}     # an axis is periodic as soon as one flag is set
    if closed:
        P['bc'] = gen.noflux_bcs(name, d, per)
        for ax in per:
            P['bc'][ax]['periodic'] = flagvar[ax]
        P['u'] = draw(problem.closed_velocity(name, d, per, upw))
    else:
        bc = draw(gen.bcs(name, d, periodic=False))
        for ax in per:
            bc[ax]['periodic'] = flagvar[ax]
        P['bc'] = bc
        u = draw(gen.face_field(d))
        # periodic axes of open problems: same seam treatment as closed ones
        cu = draw(problem.closed_velocity(name, d, per, upw))
        P['u'] = [cu[ax] if ax in per else u[ax] for ax in range(nd)]
    return dict(kind='solve', closed=closed, periodic_axes=per, P=P, grid=g)


def strategy(tier):
    return st.one_of(_op_case(), _op_case(), _solve_case())


EXHAUSTIVE_NOTE = ("closed boxes: every grid class x every subset of its periodic-capable axes (not r, not the polar angle) x every way of declaring "
                   "each periodic axis (lo flag, hi flag, both) x scheme {none, central, upwind, tvd} on a fixed small non-uniform grid with equal end cells")
ENUM_FACES = dict(x=[0.0, 0.3, 0.7, 1.0], r=[0.5, 0.8, 1.2, 1.5], thc=[0.0, 0.8, 1.7, 2.5], ths=[0.4, 0.9, 1.5, 2.0], ph=[0.0, 1.0, 1.5, 2.5])


def enumerate_cases(tier):
    import itertools
    for name in GRIDS:
        kinds = AXES[name]
        faces = [ENUM_FACES[k] for k in kinds]
        d = dims_of(faces)
        nd = len(d)
        cap = [ax for ax, k in enumerate(kinds) if k not in ('r', 'ths')]
        for r in range(0, len(cap) + 1):
            for per in itertools.combinations(cap, r):
                for flags in itertools.product(('lo', 'hi', 'both'), repeat=len(per)):
                    for scheme in ('none', 'central', 'upwind', 'tvd'):
                        upw = scheme in ('upwind', 'tvd')
                        bc = gen.noflux_bcs(name, d, per)
                        for ax, fl in zip(per, flags):
                            bc[ax]['periodic'] = fl
                        u, D = [], []
                        for ax, sh in enumerate(face_shapes(d)):
                            c = gen.expand('generic', 31 + ax, sh)
                            dd = gen.expand('pos', 41 + ax, sh, 0.2, 2.0)
                            lo = [slice(None)] * nd
                            hi = [slice(None)] * nd
                            lo[ax], hi[ax] = 0, -1
                            if ax in per and not upw:
                                c[tuple(hi)] = c[tuple(lo)]
                            else:
                                c[tuple(lo)] = 0.0
                                c[tuple(hi)] = 0.0
                            if ax in per:
                                dd[tuple(hi)] = dd[tuple(lo)]
                            u.append(c.tolist())
                            D.append(dd.tolist())
                        P = dict(name=name, faces=faces, scheme=scheme, FL='VanLeer', D=D, u=u, bc=bc, init=gen.expand('generic', 7, d).tolist(),
                                 alpha=1.0, beta=None, gamma=None, steps=2, theta=3.0, theta_explicit=0.3)
                        # the declaration is made at construction, or afterwards on the existing variable (touching nothing else)
                        for style in ('passed', 'late_min'):
                            yield dict(kind='solve', closed=True, periodic_axes=list(per), P=dict(P, bc_style=style),
                                       grid=dict(name=name, faces=faces, spacing=['random'] * nd), enumerated=True)


def budget(tier):
    return 3000 if tier == "quick" else 120000


def classify(case):
    g = case['grid']
    d = dims_of(g['faces'])
    out = dict(kind=case['kind'], grid=g['name'], N="x".join(map(str, d)), nonuniform=nonuniform(g['faces']))
    if case['kind'] == 'solve':
        out.update(closed=case['closed'], scheme=case['P']['scheme'], nper=len(case['periodic_axes']),
                   steps=case['P']['steps'], logtheta=int(np.floor(np.log10(case['P']['theta']))))
    return out


def nontrivial(case):
    g = case['grid']
    d = dims_of(g['faces'])
    if not nonuniform(g['faces']) or max(d) < 2:
        return False
    if case['kind'] == 'op':
        f = np.array(case['phi'])
        coef = any(_has_interior_nonzero(c, ax) for ax, c in enumerate(case['u'])) or \
            any(_has_interior_nonzero(c, ax) for ax, c in enumerate(case['D']))
        return bool(f.max() > f.min()) and coef
    P = case['P']
    f = np.array(P['init'])
    coefs = (P['u'] if P['scheme'] != 'none' else []) + (P['D'] or [])
    return bool(f.max() > f.min()) and any(_has_interior_nonzero(c, ax % len(d)) for ax, c in enumerate(coefs))


def _has_interior_nonzero(c, ax):
    c = np.array(c, dtype=float)
    if c.shape[ax] <= 2:
        return False
    sl = [slice(None)] * c.ndim
    sl[ax] = slice(1, -1)
    return bool(np.any(c[tuple(sl)] != 0))


# ----------------------------------------------------------------------------- oracle: boundary flux functional

def _slab(nd, ax, idx):
    s = [slice(1, -1)] * nd
    s[ax] = idx
    return tuple(s)


def boundary_functional(geo, Aface, full, kind, coef, w=None):
    """sum over boundary faces of +-A_f * (face quantity) for one full cell array.
    kind: 'diff' (coef=D: +D dphi/dn), 'central', 'upwind' (coef=u, w=direction), 'flux' (coef=F, full unused)"""
    nd = geo.nd
    d = geo.dims
    tot = 0.0
    absum = 0.0
    for ax in range(nd):
        c = np.asarray(coef[ax], dtype=float)
        A = Aface[ax]
        h = np.take(np.broadcast_to(geo.metric(ax), d), 0, axis=ax)
        for side, fi, gi, ii, sgn, dd in (('lo', 0, 0, 1, -1.0, geo.w[ax][0]), ('hi', -1, -1, -2, 1.0, geo.w[ax][-1])):
            cf = np.take(c, fi, axis=ax)
            Af = np.take(A, fi, axis=ax)
            if kind == 'flux':
                val = cf
            else:
                g = full[_slab(nd, ax, gi)]
                v = full[_slab(nd, ax, ii)]
                if kind == 'diff':
                    val = cf * sgn * (g - v) / (h * dd)
                elif kind == 'central':
                    val = cf * 0.5 * (g + v)
                else:
                    wf = np.take(np.asarray(w[ax], dtype=float), fi, axis=ax)
                    outflow = (wf * sgn) > 0
                    inflow = (wf * sgn) < 0
                    val = cf * (outflow * v + inflow * 0.5 * (g + v))
            tot += sgn * float(np.sum(Af * val))
            absum += float(np.sum(np.abs(Af * val)))
    return tot, absum


def _zero_boundary(comps):
    out = []
    for ax, c in enumerate(comps):
        c = np.array(c, dtype=float)
        lo = [slice(None)] * c.ndim
        hi = [slice(None)] * c.ndim
        lo[ax] = 0
        hi[ax] = -1
        c[tuple(lo)] = 0.0
        c[tuple(hi)] = 0.0
        out.append(c)
    return out


def _rows(d, M):
    A = M.toarray()
    rows = interior(d, np.arange(A.shape[0])).ravel()
    return A[rows, :]


def check(case):
    if case['kind'] == 'op':
        return _check_op(case)
    return _check_solve(case)


def _check_op(case):
    res = Result()
    g = case['grid']
    name = g['name']
    m = make_grid(name, g['faces'])
    d = dims_of(g['faces'])
    nd = len(d)
    geo = oracle.Geometry(name, g['faces'])
    V, Af = measure(name, m, geo)
    if name == 'SphericalGrid3D':
        res.excluded.append('K1')
    if case.get('k5_moved'):
        res.excluded.append('K5')
    v = np.asarray(V, dtype=float).ravel()
    n = int(np.prod(full_shape(d)))
    phi = np.array(case['phi'], dtype=float)
    cv = pf.CellVariable(m, phi, BCsTerm_precalc=False)
    x = phi.ravel()

    def colsum(M):
        R = _rows(d, M)
        return v @ R, float((v[:, None] * np.abs(R)).sum(axis=0).max()) + 1e-300

    # ---- (a) closed: coefficients vanish on the boundary faces
    D0, u0, w0, F0 = (_zero_boundary(case[k]) for k in ('D', 'u', 'w', 'F'))
    for nm, M in (("diffusion", pf.diffusionTerm(mk_face(m, D0))),
                  ("central", pf.convectionTerm(mk_face(m, u0))),
                  ("upwind", pf.convectionUpwindTerm(mk_face(m, u0))),
                  ("upwind-dir", pf.convectionUpwindTerm(mk_face(m, u0), mk_face(m, case['w'])))):
        cs, sc = colsum(M)
        res.expect_small(f"closed-{nm}", float(np.abs(cs).max() / sc), RTOL, f"closed-{nm}:{name}",
                         f"interior faces do not cancel in {nm} term on {name} (volume-weighted column sum)")
    for nm, vec, sc in (
            ("divergence", pf.divergenceTerm(mk_face(m, F0)), None),
            ("tvd", pf.convectionTVDupwindRHSTerm(mk_face(m, u0), cv, pf.fluxLimiter(case['FL'])), None),
            ("tvd-dir", pf.convectionTVDupwindRHSTerm(mk_face(m, u0), cv, pf.fluxLimiter(case['FL']),
                                                      mk_face(m, case['w'])), None)):
        iv = interior(d, vec).ravel()
        s = float(v @ iv)
        sc = float(v @ np.abs(iv)) + 1e-300
        if not np.isfinite(s):
            res.fail(f"closed-{nm}-nonfinite:{name}", f"{nm} vector non-finite on {name}")
        else:
            res.expect_small(f"closed-{nm}", abs(s) / sc, RTOL, f"closed-{nm}:{name}",
                             f"interior faces do not cancel in {nm} vector on {name}")

    # ---- (b) open: arbitrary coefficients, volume-weighted sum == boundary flux functional, every basis field
    basis = np.eye(n)
    for nm, M, kind, coef, w in (("diffusion", pf.diffusionTerm(mk_face(m, case['D'])), 'diff', case['D'], None),
                                 ("central", pf.convectionTerm(mk_face(m, case['u'])), 'central', case['u'], None),
                                 ("upwind", pf.convectionUpwindTerm(mk_face(m, case['u'])), 'upwind', case['u'], case['u']),
                                 ("upwind-dir", pf.convectionUpwindTerm(mk_face(m, case['u']), mk_face(m, case['w'])),
                                  'upwind', case['u'], case['w'])):
        cs, sc = colsum(M)
        want = np.zeros(n)
        for k in range(n):
            want[k], _ = boundary_functional(geo, Af, basis[k].reshape(full_shape(d)), kind, coef, w)
        res.expect_small(f"open-{nm}", float(np.abs(cs - want).max() / sc), RTOL, f"open-{nm}:{name}",
                         f"volume-weighted sum of {nm} term != net boundary-face flux on {name}")
    iv = interior(d, pf.divergenceTerm(mk_face(m, case['F']))).ravel()
    want, ab = boundary_functional(geo, Af, None, 'flux', case['F'])
    sc = float(v @ np.abs(iv)) + ab + 1e-300
    res.expect_small("open-divergence", abs(float(v @ iv) - want) / sc, RTOL, f"open-divergence:{name}",
                     f"volume-weighted sum of divergenceTerm != net boundary flux on {name}")
    return res


def _integral(name, phi, geo, reported=False):
    if name == 'SphericalGrid3D' and not reported:
        return float((geo.Vd * np.asarray(phi.value)).sum())
    return float(phi.domainIntegral())


def _check_solve(case):
    res = Result()
    P = case['P']
    name = P['name']
    d = dims_of(P['faces'])
    geo = oracle.Geometry(name, P['faces'])
    demo = case.get('demo')          # replay of a known finding: the exclusion is lifted and failures carry its id
    if name == 'SphericalGrid3D' and demo != 'K1':
        res.excluded.append('K1')
    if case['periodic_axes']:
        res.excluded.append('K2')
        if P['scheme'] in ('upwind', 'tvd'):
            res.excluded.append('K7')
    m, BC, phi = problem.build_var(P)
    V, Af = measure(name, m, geo)
    if demo == 'K1':
        V = np.asarray(m.cellvolume, float)
    nrm = problem.opnorm(m, P)
    if not np.isfinite(nrm):
        res.discarded = True
        return res
    dt = P["theta"] / (nrm if nrm > 0 else 1.0)
    tag = f"{P['scheme']}:{name}"
    if case['closed']:
        I0 = _integral(name, phi, geo, demo == 'K1')
        coefs = problem.make_coefs(m, P)      # coefficient objects created once, terms re-assembled from them every step
        for k in range(P['steps']):
            old = np.array(phi.value)
            problem.step_implicit(m, phi, P, dt, coefs=coefs)
            new = np.array(phi.value)
            if not np.all(np.isfinite(new)):
                res.discarded = True
                return res
            I1 = _integral(name, phi, geo, demo == 'K1')
            S = float((np.abs(V) * (np.abs(old) + np.abs(new))).sum()) + 1e-300
            tol = 1e-10 + 1e-13 * P['theta']
            res.expect_small("closed-implicit", abs(I1 - I0) / S, tol, f"closed-implicit:{tag}",
                             f"domainIntegral changed over a closed implicit step ({P['scheme']}, {name}, "
                             f"periodic axes {case['periodic_axes']})", known=demo if demo in ('K1', 'K7') else None)
            I0 = I1
        # explicit steps, same closed problem
        m, BC, phi = problem.build_var(P)
        phi.apply_BCs()       # documented duty of the caller when ghost cells are read before a solve
        A, s = problem.spatial_operator(m, P)
        dte = P["theta_explicit"] / (nrm if nrm > 0 else 1.0)
        I0 = _integral(name, phi, geo, demo == 'K1')
        for k in range(P['steps']):
            rhs = -(A @ np.asarray(phi._value).ravel())
            if P['scheme'] == 'tvd':
                rhs = rhs + pf.convectionTVDupwindRHSTerm(mk_face(m, P['u']), phi, pf.fluxLimiter(P['FL']))
            old = np.array(phi.value)
            phi = pf.solveExplicitPDE(phi, dte, rhs)
            I1 = _integral(name, phi, geo, demo == 'K1')
            S = float((np.abs(V) * (np.abs(old) + np.abs(np.array(phi.value)))).sum()) + 1e-300
            res.expect_small("closed-explicit", abs(I1 - I0) / S, 1e-10, f"closed-explicit:{tag}",
                             f"domainIntegral changed over a closed explicit step ({P['scheme']}, {name}, "
                             f"periodic axes {case['periodic_axes']})", known=demo if demo in ('K1', 'K2', 'K7') else None)
            I0 = I1
    else:
        phi.apply_BCs()       # ghost cells are read below before the solve (documented duty of the caller after late BC edits)
        I0 = _integral(name, phi, geo, demo == 'K1')
        old = np.array(phi.value)
        oldfull = np.array(phi._value)
        tvd = None
        if P['scheme'] == 'tvd':
            tvd = pf.convectionTVDupwindRHSTerm(mk_face(m, P['u']), phi, pf.fluxLimiter(P['FL']))
        problem.step_implicit(m, phi, P, dt)
        new = np.array(phi.value)
        full = np.array(phi._value)
        if not np.all(np.isfinite(full)):
            res.discarded = True
            return res
        I1 = _integral(name, phi, geo, demo == 'K1')
        # net boundary flux of the new field (convective - diffusive), non-periodic axes only contribute
        flux = 0.0
        ab = 0.0
        Q = _mask_periodic(P, case['periodic_axes'])
        if P['D'] is not None:
            f, a = boundary_functional(geo, Af, full, 'diff', Q['D'])
            flux -= f
            ab += a
        if P['scheme'] != 'none':
            kind = 'central' if P['scheme'] == 'central' else 'upwind'
            f, a = boundary_functional(geo, Af, full, kind, Q['u'], Q['u'])
            flux += f
            ab += a
        extra = 0.0
        if tvd is not None:
            # the TVD correction is an explicit source built from the old field; its own volume-weighted sum
            # is what it contributes (its interior faces cancel, checked at operator level)
            extra = float((np.asarray(V).ravel() * interior(d, tvd).ravel()).sum())
        S = float((np.abs(V) * (np.abs(old) + np.abs(new))).sum()) + dt * ab + abs(dt * extra) + 1e-300
        tol = 1e-9 + 1e-13 * P['theta']
        res.expect_small("open-implicit", abs((I1 - I0) - dt * (-flux + extra)) / S, tol, f"open-implicit:{tag}",
                         f"change of domainIntegral over an implicit step != dt * net boundary flux ({P['scheme']}, {name})")
    return res


def _mask_periodic(P, per):
    """on periodic axes the two end faces are one interior face: they carry no boundary flux"""
    Q = dict(P)
    for key in ('D', 'u'):
        if P.get(key) is None:
            continue
        comps = []
        for ax, c in enumerate(P[key]):
            c = np.array(c, dtype=float)
            if ax in per:
                lo = [slice(None)] * c.ndim
                hi = [slice(None)] * c.ndim
                lo[ax] = 0
                hi[ax] = -1
                c[tuple(lo)] = 0.0
                c[tuple(hi)] = 0.0
            comps.append(c)
        Q[key] = comps
    return Q
