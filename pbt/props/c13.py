"""C13  Flux limiters: published formulas, totality, TVD bounds, elementwise; TVD term finite."""
import itertools
import math
from fractions import Fraction

import numpy as np
from hypothesis import strategies as st

import pyfvtool as pf

from .. import gen, oracle
from ..common import AXES, GRIDS, LIMITERS, dims_of, full_shape, make_grid, mk_face
from ..result import Result

ID = "C13"
EPS = 2.220446049250313e-16
TOLERANCES = {"value vs exact rational reference": "max(4e-15 * max(|psi|, min(1,|r|)), 2e-323)",
              "upper bound": "min(2r,4)*(1+4eps)", "psi(1)": "exactly 1 (1e-15)"}
RULE = ("Enumerated completely (exhaustive sub-domain): 16 names x all rationals p/q with |p|<=12, 1<=q<=12 (contains every root "
        "of a numerator/denominator of the formulas) x +-10^k for k in -100..100 x +-0 ; and the TVD correction for ALL "
        "integer fields in {-2..2}^(N+2), N=1..3, on the three 1-D grid classes, 16 limiters, u = +1, -1, alternating "
        "(hits r in {0,+-1/2,+-1,+-2,+-3,...,inf} exactly).  Generated: dense blocks of 4096 reals over [-1e3,1e3] "
        "(Hypothesis picks block origin/scale), arbitrary finite doubles incl. subnormals, array shapes 0-d..3-d and "
        "non-contiguous views, unknown names (random text), integer/quarter-integer fields on 2-D/3-D/curvilinear grids.  "
        "Oracle: published closed forms evaluated in exact rational arithmetic (fractions.Fraction) on the exact value of the "
        "double.  Non-trivial = a block containing an r within 1e-9 of a breakpoint / singular point or |r|>=1e8, or an integer "
        "field with two equal or opposite successive differences.  Distinct = SHA-1 of the case.")
EXHAUSTIVE_NOTE = ("names x rationals(|p|,q<=12) x powers of ten x signed zero; all integer fields {-2..2}^(N+2), N<=3, on Grid1D / "
                   "CylindricalGrid1D / SphericalGrid1D x 16 limiters x 3 velocity patterns")
ASSUMPTIONS = ["beta = 1.5 for Sweby and Osher (fixed in the code, no docstring)",
               "|r| <= 1e100 as in the property's quantifier (r*r overflows beyond 1e154 in three formulas)"]
BREAKS = [Fraction(x) for x in (0, 1, 2, 3, 4, -1, -2, -3)] + [Fraction(1, 2), Fraction(1, 3), Fraction(1, 4), Fraction(1, 5),
                                                               Fraction(-1, 2), Fraction(-1, 3), Fraction(2, 3), Fraction(3, 2),
                                                               Fraction(5, 2), Fraction(5), Fraction(3, 5), Fraction(5, 3)]


def rationals():
    seen = set()
    for q in range(1, 13):
        for p in range(-12, 13):
            seen.add(Fraction(p, q))
    return sorted(seen)


def enumerate_cases(tier):
    rats = [float(x) for x in rationals()]
    rats_s = [f"{x.numerator}/{x.denominator}" for x in rationals()]
    pows = [s * 10.0 ** k for k in range(-100, 101) for s in (1.0, -1.0)] + [0.0, -0.0]
    for name in LIMITERS:
        for i in range(0, len(rats), 64):
            yield dict(kind='values', name=name, r=rats[i:i + 64], rs=rats_s[i:i + 64])
        for i in range(0, len(pows), 67):
            yield dict(kind='values', name=name, r=pows[i:i + 67])
    # the documented optional argument eps (regularisation of removable singularities) must not change the limiter anywhere:
    # explicit values, dyadic ones included (singular point +- eps is then representable)
    for name in LIMITERS:
        for eps in (1e-8, 2.0 ** -20, 2.0 ** -40, 1e-3):
            near = [s + t * eps for s in (-3.0, -2.0, -1.0, -0.5, 0.0, 0.5, 1.0, 2.0) for t in (-1.0, 0.0, 1.0)]
            yield dict(kind='values', name=name, r=near + rats[::7], eps=eps)
    # TVD on all small integer fields
    for gname in ('Grid1D', 'CylindricalGrid1D', 'SphericalGrid1D'):
        for N in (1, 2, 3):
            total = 5 ** (N + 2)
            nblocks = max(1, total // 125)
            for b in range(nblocks):
                yield dict(kind='tvd-int', grid=gname, N=N, block=b, nblocks=nblocks)


@st.composite
def _gen_case(draw):
    kind = draw(st.sampled_from(['dense', 'dense', 'floats', 'shapes', 'unknown', 'tvd-field']))
    if kind == 'dense':
        name = draw(gen.limiter_names)
        centre = draw(st.sampled_from([0.0, 1.0, -1.0, -2.0, -3.0, 2.0, 0.5, 1 / 3, 0.25, 4.0, 100.0, -500.0]))
        width = draw(st.sampled_from([1e3, 10.0, 1.0, 1e-3, 1e-9, 1e-13]))
        off = draw(st.floats(-1, 1))
        return dict(kind='dense', name=name, centre=centre, width=width, off=off)
    if kind == 'floats':
        name = draw(gen.limiter_names)
        rs = draw(st.lists(st.floats(-1e100, 1e100, allow_nan=False, allow_subnormal=True), min_size=1, max_size=40))
        return dict(kind='values', name=name, r=rs)
    if kind == 'shapes':
        name = draw(gen.limiter_names)
        shape = draw(st.sampled_from([(), (1,), (5,), (2, 3), (3, 1), (2, 2, 3), (1, 1, 1)]))
        seed = draw(st.integers(0, 2 ** 31 - 1))
        view = draw(st.sampled_from(['plain', 'strided', 'transposed', 'pyfloat', 'npfloat']))
        return dict(kind='shapes', name=name, shape=list(shape), seed=seed, view=view)
    if kind == 'unknown':
        nm = draw(st.text(min_size=0, max_size=12))
        if nm in LIMITERS:
            nm = nm + "_"
        rs = draw(st.lists(st.floats(-10, 10, allow_nan=False), min_size=1, max_size=10))
        return dict(kind='unknown', name=nm, r=rs)
    g = draw(gen.grids(nmax=3, nmax3=2))
    d = dims_of(g['faces'])
    phi = draw(gen.cell_full(d, styles=('int', 'quarter', 'const'), direct=False))
    u = draw(gen.face_field(d, styles=('pos', 'neg', 'generic', 'zeros', 'int')))
    return dict(kind='tvd-field', grid=g, phi=phi, u=u)


def strategy(tier):
    return _gen_case()


def budget(tier):
    return 3000 if tier == "quick" else 500000


def classify(case):
    out = dict(kind=case['kind'])
    if 'name' in case and case['kind'] != 'unknown':
        out['name'] = case['name']
    if case['kind'] in ('tvd-field',):
        out['grid'] = case['grid']['name']
    if case['kind'] == 'tvd-int':
        out['grid'] = case['grid']
    return out


def _near_break(r):
    for b in BREAKS:
        if abs(r - float(b)) <= 1e-9 * max(1.0, abs(float(b))):
            return True
    return abs(r) >= 1e8


def nontrivial(case):
    k = case['kind']
    if k == 'values':
        return any(_near_break(x) for x in case['r'])
    if k == 'dense':
        return any(abs(case['centre'] - float(b)) <= case['width'] * 2 for b in BREAKS)
    if k == 'tvd-int':
        return True     # every block contains fields with equal and with opposite successive differences
    if k == 'tvd-field':
        p = np.array(case['phi'])
        for ax in range(p.ndim):
            dd = np.diff(p, axis=ax)
            a = np.take(dd, range(0, dd.shape[ax] - 1), axis=ax)
            b = np.take(dd, range(1, dd.shape[ax]), axis=ax)
            if np.any(a == b) or np.any(a == -b):
                return True
        return False
    return k in ('shapes', 'unknown')


def _check_values(res, name, FL, rs, tag="values"):
    arr = np.array(rs, dtype=float)
    with np.errstate(all='ignore'):
        got = np.asarray(FL(arr), dtype=float)
    if got.shape != arr.shape:
        res.fail(f"shape:{name}", f"{name}: output shape {got.shape} for input shape {arr.shape}")
        return
    for r, g in zip(arr.tolist(), got.tolist()):
        if not math.isfinite(g):
            res.fail(f"nonfinite:{name}", f"{name}({r!r}) = {g}", float('inf'))
            continue
        ref = oracle.limiter_exact(name, Fraction(r))
        reff = float(ref)
        # relative tolerance, floored at a few spacings of the subnormal range (rounding there is absolute)
        tol = max(4e-15 * max(abs(reff), min(1.0, abs(r))), 4 * 5e-324)
        err = abs(Fraction(g) - ref)
        res.see(f"value-{name}", float(err) / (max(abs(reff), min(1.0, abs(r))) or 1.0))
        if err > tol:
            res.fail(f"value:{name}", f"{name}({r!r}) = {g!r}, published formula gives {reff!r}", float(err))
        if r > 0:
            if g < 0 or g > min(2 * r, 4.0) * (1 + 4 * EPS):
                res.fail(f"bounds:{name}", f"{name}({r!r}) = {g!r} outside [0, min(2r,4)]")
        elif name in oracle.CLIPPING and g != 0:
            res.fail(f"clip:{name}", f"{name}({r!r}) = {g!r}, must vanish for r <= 0")


def check(case):
    res = Result()
    k = case['kind']
    if k == 'values':
        name = case['name']
        FL = pf.fluxLimiter(name) if case.get('eps') is None else pf.fluxLimiter(name, eps=case['eps'])
        res.units = len(case['r'])
        _check_values(res, name, FL, case['r'])
        one = float(np.asarray(FL(np.array([1.0])))[0])
        if abs(one - 1.0) > 1e-15:
            res.fail(f"psi1:{name}", f"{name}(1) = {one!r} != 1")
        return res
    if k == 'dense':
        name = case['name']
        FL = pf.fluxLimiter(name)
        n = 4096
        r = case['centre'] + case['width'] * (np.linspace(-1, 1, n) + case['off'] / n)
        res.units = n
        with np.errstate(all='ignore'):
            got = np.asarray(FL(r), float)
            ref = oracle.limiter_np(name, r)
        if got.shape != r.shape:
            res.fail(f"shape:{name}", f"{name}: output shape changed")
            return res
        bad = ~np.isfinite(got)
        if np.any(bad):
            res.fail(f"nonfinite:{name}", f"{name}({r[bad][0]!r}) not finite", float('inf'))
            return res
        sc = np.maximum(np.abs(ref), np.minimum(1.0, np.abs(r)))
        sc = np.where(sc == 0, 1.0, sc)
        e = np.abs(got - ref) / sc
        i = int(np.argmax(e))
        res.see(f"dense-{name}", float(e[i]))
        if e[i] > 2e-14:
            # confirm against the exact reference before reporting (the float reference has its own rounding)
            _check_values(res, name, FL, [float(r[i])])
        pos = r > 0
        ub = np.minimum(2 * r, 4.0) * (1 + 4 * EPS)
        if np.any(got[pos] < 0) or np.any(got[pos] > ub[pos]):
            j = np.where(pos & ((got < 0) | (got > ub)))[0][0]
            res.fail(f"bounds:{name}", f"{name}({r[j]!r}) = {got[j]!r} outside [0, min(2r,4)]")
        if name in oracle.CLIPPING and np.any(got[~pos] != 0):
            j = np.where((~pos) & (got != 0))[0][0]
            res.fail(f"clip:{name}", f"{name}({r[j]!r}) = {got[j]!r}, must vanish for r <= 0")
        return res
    if k == 'shapes':
        name = case['name']
        FL = pf.fluxLimiter(name)
        shape = tuple(case['shape'])
        base = gen.expand('quarter', case['seed'], shape if shape else (1,)) * 1.5
        view = case['view']
        if view == 'pyfloat':
            x = float(base.ravel()[0])
            got = FL(x)
            ref = float(np.asarray(FL(np.array([x])))[0])
            if np.ndim(got) != 0 or not (float(got) == ref):
                res.fail(f"scalar:{name}", f"{name}: python float input gives {got!r}, array input gives {ref!r}")
            return res
        if view == 'npfloat':
            x = np.float64(base.ravel()[0])
            got = FL(x)
            ref = float(np.asarray(FL(np.array([float(x)])))[0])
            if np.ndim(got) != 0 or not (float(got) == ref):
                res.fail(f"scalar:{name}", f"{name}: numpy scalar input gives {got!r}, array input gives {ref!r}")
            return res
        arr = base.reshape(shape) if shape else np.array(base.ravel()[0])
        if view == 'strided' and arr.ndim >= 1 and arr.shape[0] >= 1:
            big = np.repeat(arr, 2, axis=0)
            big[1::2] = 77.0
            arr = big[::2]
        elif view == 'transposed' and arr.ndim >= 2:
            arr = np.ascontiguousarray(arr.T).T
        got = np.asarray(FL(arr))
        if got.shape != arr.shape:
            res.fail(f"shape:{name}", f"{name}: input shape {arr.shape} ({view}) -> output shape {got.shape}")
            return res
        flat = np.array([float(np.asarray(FL(np.array([v])))[0]) for v in np.asarray(arr, float).ravel()])
        if not np.array_equal(np.asarray(got, float).ravel(), flat):
            res.fail(f"elementwise:{name}", f"{name}: value at an entry depends on the other entries / layout ({view}, shape {arr.shape})")
        return res
    if k == 'unknown':
        import contextlib
        import io
        with contextlib.redirect_stdout(io.StringIO()):
            FL = pf.fluxLimiter(case['name'])
        SB = pf.fluxLimiter('SUPERBEE')
        r = np.array(case['r'], float)
        if not np.array_equal(np.asarray(FL(r)), np.asarray(SB(r))):
            res.fail("unknown-name", f"unknown limiter name {case['name']!r} does not fall back to SUPERBEE")
        return res
    if k == 'tvd-int':
        gname, N = case['grid'], case['N']
        faces = [np.linspace(0.5 if gname != 'Grid1D' else 0.0, 2.0, N + 1)]
        m = make_grid(gname, faces)
        us = [np.ones(N + 1), -np.ones(N + 1), np.array([(-1.0) ** i for i in range(N + 1)])]
        vals = [-2.0, -1.0, 0.0, 1.0, 2.0]
        fields = list(itertools.product(vals, repeat=N + 2))
        blk = fields[case['block']::case['nblocks']]
        FLs = [(n, pf.fluxLimiter(n)) for n in LIMITERS]
        res.units = len(blk) * len(FLs) * len(us)
        for f in blk:
            cv = pf.CellVariable(m, np.array(f), BCsTerm_precalc=False)
            for uu in us:
                u = mk_face(m, [uu])
                for n, FL in FLs:
                    with np.errstate(all='ignore'):
                        z = pf.convectionTVDupwindRHSTerm(u, cv, FL)
                    if not np.all(np.isfinite(z)):
                        res.fail(f"tvd-nonfinite:{n}", f"TVD correction not finite: limiter {n}, {gname}, field {f}, u={uu.tolist()}")
        return res
    if k == 'tvd-field':
        g = case['grid']
        m = make_grid(g['name'], g['faces'])
        cv = pf.CellVariable(m, np.array(case['phi'], float), BCsTerm_precalc=False)
        u = mk_face(m, case['u'])
        res.units = len(LIMITERS)
        for n in LIMITERS:
            with np.errstate(all='ignore'):
                z = pf.convectionTVDupwindRHSTerm(u, cv, pf.fluxLimiter(n))
            if not np.all(np.isfinite(z)):
                res.fail(f"tvd-nonfinite:{n}", f"TVD correction not finite: limiter {n} on {g['name']}")
        return res
    raise ValueError(k)
