"""C09  No stale state: any edit history followed by a solve equals a fresh start (model-based, stateful)."""
import itertools

import numpy as np
from hypothesis import strategies as st

import pyfvtool as pf

from .. import gen, oracle
from ..common import (AXES, GRIDS, NDIM, SIDES, HarnessError, bc_shape, dims_of, face_shapes, full_shape, interior, make_grid, mk_face)
from ..result import Result

ID = "C09"
TOL = 1e-11
TOLERANCES = {"solve on the edited variable vs the same solve on a fresh variable (full arrays)": TOL,
              "visible state after non-solve operations": "bitwise", "clean variable: ghost layer vs reference": 1e-12,
              "clean variable: cached boundary term vs freshly built": "bitwise"}
RULE = ("Histories over the alphabet {assign / slice-assign / augmented-assign (*=, +=) a,b,c; fixedValue; fixedGradient(+-scale); newtonCooling(+-reverse); "
        "defaultNoFlux; toggle periodic (non-radial axes); value = ...; value[idx] = ...; update_value(other); copy(); arithmetic "
        "producing a new variable; a second variable on an existing BC object; apply_BCs(); solvePDE (terms from coefficient "
        "fields); solveExplicitPDE (its result joins the pool and may be fed to solvePDE)} on a generated mesh (9 classes, N 1..3 / "
        "1..2), pool of <= 6 variables, both construction styles.  Three engines share one interpreter + reference model: "
        "(1) Hypothesis-generated programs (lists of operations, 1..40 steps), (2) a Hypothesis RuleBasedStateMachine (rules = "
        "operations, invariant after every step, up to 50 steps), (3) bounded-exhaustive enumeration of all sequences of length "
        "<= 3 (thorough: 4) over a 14-letter concrete alphabet on a 3-cell Grid1D and a 2x2 Grid2D, each followed "
        "by each of three solves.  Oracle: after every solve a FRESH variable is built from the model (interior values + BC "
        "contents) and the same solve is run on it; after every operation the visible state of every variable must equal the "
        "model's; a variable with both dirty bits clear must have reference ghost values and a cached boundary term equal to a "
        "freshly built one.  Non-trivial = the compared solve is preceded by >=1 BC edit and >=1 value edit, or involves a shared "
        "BC object, an explicit-solver result passed to solvePDE, or a copy edited before solving.  Distinct = SHA-1 of the program.")
EXHAUSTIVE_NOTE = ("all sequences of length <= 3 over the 14-letter alphabet x 3 final solves x 2 meshes (length 4 in the thorough tier); "
                   "every single edit kind x every face x all 9 grid classes applied to a clean variable, followed by each solve")
ASSUMPTIONS = ["K3: dirty bits live on the shared BC object; when another sharer's apply_BCs cleared them, a variable's cached boundary "
               "term / ghost layer stays stale.  The model tracks exactly this pattern (BC version newer than the variable's last "
               "apply, flags clear); only then a mismatch is attributed to K3",
               "solves are skipped (counted) while a BC face is degenerate (ghost equation singular), the only documented domain being well-posed conditions",
               "terms are built from coefficient fields only, so the term list is a function of the visible state (no TVD term)"]
FACES6 = ('left', 'right', 'bottom', 'top', 'back', 'front')
MAXPOOL = 6


# ----------------------------------------------------------------------------- interpreter + model

class Interp:
    def __init__(self, grid, init_seed, style, res):
        self.res = res
        self.name = grid['name']
        self.faces = grid['faces']
        self.m = make_grid(self.name, self.faces)
        self.d = dims_of(self.faces)
        self.nd = len(self.d)
        self.geo = oracle.Geometry(self.name, self.faces)
        self.fnames = FACES6[:2 * self.nd]
        self.vars = []          # real CellVariables
        self.mv = []            # model: dict(interior, bc, applied, precalc, tags)
        self.mbc = []           # model BC objects: dict(faces={name: dict(a,b,c,periodic)}, version, sharers)
        self.rbc = []           # real BC objects (parallel to mbc)
        self.hist = dict(bc_edit=0, val_edit=0)
        self.nontrivial = False
        self.skipped_solves = 0
        self.k3 = 0
        v0 = gen.expand('generic', init_seed, self.d)
        v1 = gen.expand('quarter', init_seed + 1, self.d)
        if style == 'passed':
            BC = pf.BoundaryConditions(self.m)
            self._new_var(pf.CellVariable(self.m, v0.copy(), BC), v0, self._new_bc(BC))
        else:
            var = pf.CellVariable(self.m, v0.copy())
            self._new_var(var, v0, self._new_bc(var.BCs))
        var = pf.CellVariable(self.m, v1.copy())
        self._new_var(var, v1, self._new_bc(var.BCs))

    # -- model bookkeeping
    def _read_bc(self, BC):
        out = {}
        for f in self.fnames:
            bf = getattr(BC, f)
            out[f] = dict(a=np.array(bf.a, float), b=np.array(bf.b, float), c=np.array(bf.c, float), periodic=bool(bf.periodic))
        return out

    def _new_bc(self, BC, contents=None):
        self.rbc.append(BC)
        self.mbc.append(dict(faces=contents if contents is not None else self._read_bc(BC), version=0, cleared=-1))
        return len(self.mbc) - 1

    def _new_var(self, var, interior_vals, bci, precalc=True, tags=()):
        self.vars.append(var)
        self.mv.append(dict(interior=np.array(interior_vals, float), bc=bci, applied=self.mbc[bci]['version'], precalc=precalc,
                            tags=set(tags), edits=set()))

    def _copy_contents(self, bci):
        return {f: dict(a=e['a'].copy(), b=e['b'].copy(), c=e['c'].copy(), periodic=e['periodic']) for f, e in self.mbc[bci]['faces'].items()}

    def spec_of(self, bci):
        """BC contents as a case-style spec for the reference ghost model"""
        spec = []
        F = self.mbc[bci]['faces']
        for ax in range(self.nd):
            lo, hi = SIDES[ax]
            per = 'none'
            if F[lo]['periodic'] and F[hi]['periodic']:
                per = 'both'
            elif F[lo]['periodic']:
                per = 'lo'
            elif F[hi]['periodic']:
                per = 'hi'
            spec.append(dict(periodic=per, lo={k: F[lo][k] for k in 'abc'}, hi={k: F[hi][k] for k in 'abc'}))
        return spec

    def degenerate(self, bci):
        """ghost equation (nearly) singular on some non-periodic face"""
        spec = self.spec_of(bci)
        for ax in range(self.nd):
            e = spec[ax]
            if e['periodic'] != 'none':
                continue
            h = np.take(np.broadcast_to(self.geo.metric(ax), self.d), 0, axis=ax)
            for side, sgn, dd in (('lo', -1.0, self.geo.w[ax][0]), ('hi', 1.0, self.geo.w[ax][-1])):
                a = np.asarray(e[side]['a'], float).reshape(h.shape if self.nd > 1 else ())
                b = np.asarray(e[side]['b'], float).reshape(h.shape if self.nd > 1 else ())
                den = sgn * a / (h * dd) + b / 2
                sc = np.abs(a) / (h * dd) + np.abs(b) / 2
                if np.any(np.abs(den) <= 1e-6 * np.maximum(sc, 1e-300)) or np.any(sc == 0):
                    return True
        return False

    def fresh(self, vi):
        mv = self.mv[vi]
        BC = pf.BoundaryConditions(self.m)
        F = self.mbc[mv['bc']]['faces']
        for f in self.fnames:
            bf = getattr(BC, f)
            bf.a[:] = F[f]['a']
            bf.b[:] = F[f]['b']
            bf.c[:] = F[f]['c']
            if F[f]['periodic']:
                bf.periodic = True
        return pf.CellVariable(self.m, mv['interior'].copy(), BC)

    def stale(self, vi):
        mv = self.mv[vi]
        return mv['applied'] < self.mbc[mv['bc']]['version']

    def k3_pattern(self, vi):
        """K3: this variable has not re-applied the BCs since their last edit, but the shared dirty bits were cleared at the
        current BC version - necessarily through ANOTHER variable sharing the BC object (decided from the model, not from
        the code's own flags)"""
        mv = self.mv[vi]
        b = self.mbc[mv['bc']]
        return self.stale(vi) and (b['cleared'] == b['version'] or mv.get('inherited_k3', False))

    def _cleared(self, bci):
        self.mbc[bci]['cleared'] = self.mbc[bci]['version']

    def sharers(self, bci):
        return [i for i, mv in enumerate(self.mv) if mv['bc'] == bci]

    def _bc_edit(self, vi, f):
        bci = self.mv[vi]['bc']
        self.mbc[bci]['version'] += 1
        for i in self.sharers(bci):
            self.mv[i]['edits'].add('bc')
        return self.mbc[bci]['faces'][f], getattr(self.rbc[bci], f)

    def _val_edit(self, vi):
        self.mv[vi]['edits'].add('val')

    def _face(self, op):
        return self.fnames[op.get('face', 0) % len(self.fnames)]

    def _v(self, op, key='v'):
        return op.get(key, 0) % len(self.vars)

    # -- one operation
    def step(self, op):
        k = op['op']
        vi = self._v(op)
        var = self.vars[vi]
        mv = self.mv[vi]
        if k in ('bc_set', 'bc_slice', 'bc_aug', 'fixedValue', 'fixedGradient', 'newtonCooling', 'defaultNoFlux', 'periodic'):
            f = self._face(op)
            if k == 'periodic':
                ax = self.fnames.index(f) // 2
                if AXES[self.name][ax] == 'r':
                    return 'skipped'
            mf, rf = self._bc_edit(vi, f)
            # always go through the variable's own handle on the BC object
            rf = getattr(var.BCs, f)
            if k == 'bc_set':
                val = op['val']
                setattr(rf, op['coef'], val)
                mf[op['coef']][...] = val
            elif k == 'bc_aug':
                # augmented assignment on the attribute:  face.c *= v   /   face.a += v
                # (python evaluates it as: tmp = face.c; tmp *= v [in place]; face.c = tmp)
                tmp = getattr(rf, op['coef'])
                if op['how'] == 'mul':
                    tmp *= op['val']
                    mf[op['coef']] *= op['val']
                else:
                    tmp += op['val']
                    mf[op['coef']] += op['val']
                setattr(rf, op['coef'], tmp)
            elif k == 'bc_slice':
                arr = getattr(rf, op['coef'])
                idx = np.unravel_index(op['idx'] % arr.size, arr.shape)
                arr[idx] = op['val']
                mf[op['coef']][idx] = op['val']
            elif k == 'fixedValue':
                rf.fixedValue(op['val'])
                mf['a'][...] = 0.0
                mf['b'][...] = 1.0
                mf['c'][...] = op['val']
            elif k == 'fixedGradient':
                rf.fixedGradient(op['val'], op['scale'])
                mf['a'][...] = op['scale']
                mf['b'][...] = 0.0
                mf['c'][...] = op['scale'] * op['val']
            elif k == 'newtonCooling':
                rf.newtonCooling(op['k'], op['h'], op['T'], reverse_direction=op['rev'])
                he = -op['h'] if op['rev'] else op['h']
                mf['a'][...] = op['k']
                mf['b'][...] = he
                mf['c'][...] = he * op['T']
            elif k == 'defaultNoFlux':
                rf.defaultNoFlux()
                mf['a'][...] = 1.0
                mf['b'][...] = 0.0
                mf['c'][...] = 0.0
            else:
                rf.periodic = bool(op['val'])
                mf['periodic'] = bool(op['val'])
            self.hist['bc_edit'] += 1
        elif k == 'val_set':
            new = gen.expand('generic', op['seed'], self.d)
            var.value = new
            mv['interior'] = new.copy()
            self._val_edit(vi)
        elif k == 'val_slice':
            idx = np.unravel_index(op['idx'] % int(np.prod(self.d)), self.d)
            var.value[idx] = op['val']
            mv['interior'][idx] = op['val']
            self._val_edit(vi)
        elif k == 'update_value':
            wi = self._v(op, 'w')
            var.update_value(self.vars[wi])
            mv['interior'] = self.mv[wi]['interior'].copy()
            self._val_edit(vi)
        elif k == 'copy':
            if len(self.vars) >= MAXPOOL:
                return 'skipped'
            new = var.copy()
            bci = self._new_bc(new.BCs, self._copy_contents(mv['bc']))
            self._new_var(new, mv['interior'], bci, tags={'copy'})
            # a copy carries over the ghost layer and the 'needs update' state of the original
            self.mv[-1]['applied'] = -1 if self.stale(vi) else self.mbc[bci]['version']
            self.mv[-1]['inherited_k3'] = self.k3_pattern(vi)
        elif k == 'arith':
            if len(self.vars) >= MAXPOOL:
                return 'skipped'
            kind = op['kind']
            if kind == 'add_var':
                wi = self._v(op, 'w')
                new = var + self.vars[wi]
                vals = mv['interior'] + self.mv[wi]['interior']
            elif kind == 'mul_sc':
                new = var * op['sc']
                vals = mv['interior'] * op['sc']
            elif kind == 'rsub_sc':
                new = op['sc'] - var
                vals = op['sc'] - mv['interior']
            else:
                new = -var
                vals = -mv['interior']
            bci = self._new_bc(new.BCs, self._copy_contents(mv['bc']))
            self._new_var(new, vals, bci, tags={'arith'})
        elif k == 'share':
            if len(self.vars) >= MAXPOOL:
                return 'skipped'
            vals = gen.expand('generic', op['seed'], self.d)
            if self.degenerate(mv['bc']):
                return 'skipped'
            new = pf.CellVariable(self.m, vals.copy(), var.BCs)
            self._new_var(new, vals, mv['bc'], tags={'shared'})
            for i in self.sharers(mv['bc']):
                self.mv[i]['tags'].add('shared')
        elif k == 'apply':
            if self.degenerate(mv['bc']):
                return 'skipped'
            var.apply_BCs()
            mv['applied'] = self.mbc[mv['bc']]['version']
            mv['inherited_k3'] = False
            self._cleared(mv['bc'])
        elif k in ('solve', 'explicit'):
            return self._solve(op, vi)
        else:
            raise HarnessError(f"unknown op {k}")
        return 'ok'

    def _terms(self, var, spec):
        m = self.m
        d = self.d
        tl = [pf.transientTerm(var, spec['dt'], spec['alpha'])]
        D = mk_face(m, [gen.expand('pos', spec['seed'] + i, s, 0.1, 2.0) for i, s in enumerate(face_shapes(d))])
        tl.append(-pf.diffusionTerm(D))
        if spec['scheme'] != 'none':
            u = mk_face(m, [gen.expand('generic', spec['seed'] + 10 + i, s) for i, s in enumerate(face_shapes(d))])
            tl.append(pf.convectionTerm(u) if spec['scheme'] == 'central' else pf.convectionUpwindTerm(u))
        if spec.get('beta'):
            tl.append(pf.linearSourceTerm(pf.CellVariable(m, gen.expand('pos', spec['seed'] + 20, d, 0.1, 1.0))))
        if spec.get('gamma'):
            tl.append(pf.constantSourceTerm(pf.CellVariable(m, gen.expand('generic', spec['seed'] + 21, d))))
        return tl

    def _solve(self, op, vi):
        var = self.vars[vi]
        mv = self.mv[vi]
        res = self.res
        bci = mv['bc']
        if self.degenerate(bci):
            self.skipped_solves += 1
            return 'skipped'
        spec = op['spec']
        # K3 pattern at the start of the solve: BC object newer than this variable's last apply, flags cleared by a sharer
        flags_clear = not (bool(var.BCs.modified) or bool(var.value.modified))
        k3 = self.k3_pattern(vi)
        fresh = self.fresh(vi)
        nt = ('bc' in mv['edits'] and 'val' in mv['edits']) or ('shared' in mv['tags']) or \
            ('explicit' in mv['tags'] and op['op'] == 'solve') or ('copy' in mv['tags'] and mv['edits'])
        self.nontrivial |= bool(nt)
        if op['op'] == 'solve':
            pf.solvePDE(fresh, self._terms(fresh, spec))
            out = pf.solvePDE(var, self._terms(var, spec))
            if out is not var:
                res.fail("solve-identity", "solvePDE did not return its argument")
            got, want = np.asarray(var._value, float), np.asarray(fresh._value, float)
            target = vi
        else:
            n = int(np.prod(full_shape(self.d)))
            ref = self.fresh(vi)
            rhs = np.zeros(n)
            Msp = sum(t for t in self._terms(ref, spec)[1:] if getattr(t, 'ndim', 0) == 2)
            rhs = -(Msp @ np.asarray(ref._value, float).ravel())
            want_var = pf.solveExplicitPDE(fresh, spec['dt_e'], rhs)
            new = pf.solveExplicitPDE(var, spec['dt_e'], rhs)
            got, want = np.asarray(new._value, float), np.asarray(want_var._value, float)
            if not np.array_equal(np.asarray(var.value), mv['interior']):
                res.fail("explicit-mutates-input", "solveExplicitPDE changed the interior values of its input")
            if new.BCs is not var.BCs:
                # sharing is how the code hands the BCs on; the model follows what the code does
                bci_new = self._new_bc(new.BCs)
            else:
                bci_new = bci
            if len(self.vars) < MAXPOOL:
                self._new_var(new, got[tuple(slice(1, -1) for _ in self.d)], bci_new, precalc=False, tags={'explicit', 'shared'})
                for i in self.sharers(bci_new):
                    self.mv[i]['tags'].add('shared')
                target = len(self.vars) - 1
            else:
                target = None
            # the input was re-applied if it was dirty; the result's own apply_BCs cleared the (shared) bits
            if not flags_clear:
                mv['applied'] = self.mbc[bci]['version']
                mv['inherited_k3'] = False
            self._cleared(bci_new)
        if not (np.all(np.isfinite(got)) and np.all(np.isfinite(want))):
            res.discarded = True
            self.abort = True
            return 'nonfinite'
        sc = max(np.abs(want).max(), 1e-300)
        err = float(np.abs(got - want).max() / sc) if got.shape == want.shape else float('inf')
        res.see("solve-vs-fresh", err)
        if err > TOL:
            if k3:
                self.k3 += 1
                res.fail(f"K3:{op['op']}", f"{op['op']} on a variable whose BC object was edited and then 'applied' through another variable "
                         f"sharing it used the stale cached boundary data (differs from a fresh variable by {err:.2e})", err, known="K3")
            else:
                res.fail(f"{op['op']}-vs-fresh:{'+'.join(sorted(mv['tags'])) or 'plain'}",
                         f"{op['op']} after the edit history differs from the same solve on a freshly constructed variable with the same "
                         f"interior values and boundary conditions by {err:.2e} (variable tags {sorted(mv['tags'])}, edits {sorted(mv['edits'])}, {self.name})", err)
        if op['op'] == 'solve':
            mv['interior'] = np.array(var.value, float)
            mv['applied'] = self.mbc[bci]['version']
            mv['inherited_k3'] = False
            self._cleared(bci)
            mv['edits'] = set()
        return 'ok'

    # -- invariants after every step
    def invariants(self, where):
        res = self.res
        for i, (var, mv) in enumerate(zip(self.vars, self.mv)):
            real = np.asarray(var.value, float)
            if real.shape != mv['interior'].shape or not np.array_equal(real, mv['interior']):
                res.fail(f"visible-values:{where}", f"after {where}: interior values of variable {i} (tags {sorted(mv['tags'])}) differ from the model "
                         f"- an operation on another object leaked, or the operation did not do what it documents ({self.name})")
                mv['interior'] = np.array(real, float)
            F = self.mbc[mv['bc']]['faces']
            for f in self.fnames:
                bf = getattr(var.BCs, f)
                ok = np.array_equal(np.asarray(bf.a), F[f]['a']) and np.array_equal(np.asarray(bf.b), F[f]['b']) and \
                    np.array_equal(np.asarray(bf.c), F[f]['c']) and bool(bf.periodic) == F[f]['periodic']
                if not ok:
                    res.fail(f"visible-bc:{where}", f"after {where}: boundary conditions of variable {i} (tags {sorted(mv['tags'])}) differ from the model ({self.name})")
                    self.mbc[mv['bc']]['faces'] = self._read_bc(var.BCs)
                    break
            # clean => consistent
            clean = not (bool(var.BCs.modified) or bool(var.value.modified) or bool(var._value.modified))
            if clean and not self.degenerate(mv['bc']):
                k3 = self.k3_pattern(i)
                want = oracle.ghost_reference(self.geo, mv['interior'], self.spec_of(mv['bc']))
                full = np.asarray(var._value, float)
                cnt = np.zeros(full.shape, int)
                for ax in range(self.nd):
                    gh = np.zeros(full.shape[ax], bool)
                    gh[[0, -1]] = True
                    shp = [1] * self.nd
                    shp[ax] = -1
                    cnt = cnt + gh.reshape(shp)
                msk = cnt == 1
                if np.all(np.isfinite(want[msk])) and np.all(np.isfinite(full[msk])):
                    sc = max(np.abs(want).max(), 1e-300)
                    e = float(np.abs(full[msk] - want[msk]).max() / sc)
                    if e > 1e-11:
                        if k3:
                            res.fail("K3:ghosts", "clean flags but stale ghost layer on a variable sharing its BC object", e, known="K3")
                        else:
                            res.fail(f"stale-ghosts:{where}", f"after {where}: variable {i} (tags {sorted(mv['tags'])}) has both dirty bits clear but its "
                                     f"ghost layer is not the one its interior values and boundary conditions give ({self.name})", e)
                if mv['precalc'] and hasattr(var, '_BCsTerm'):
                    fb = self.fresh(i)
                    M1, v1 = var._BCsTerm
                    M2, v2 = fb._BCsTerm
                    if abs(M1 - M2).max() > 0 or not np.array_equal(v1, v2):
                        if k3:
                            res.fail("K3:bcterm", "clean flags but stale cached boundary term on a variable sharing its BC object", known="K3")
                        else:
                            res.fail(f"stale-bcterm:{where}", f"after {where}: variable {i} (tags {sorted(mv['tags'])}) has both dirty bits clear but its "
                                     f"cached boundary term differs from a freshly built one ({self.name})")


def run_program(case):
    res = Result()
    it = Interp(case['grid'], case['init_seed'], case['style'], res)
    it.abort = False
    it.invariants("construction")
    for n, op in enumerate(case['ops']):
        r = it.step(op)
        if getattr(it, 'abort', False):
            break
        if r != 'skipped':
            it.invariants(op['op'])
        if len([f for f in res.failures if not f.known]) > 0:
            break
    res.units = len(case['ops'])
    res._nontrivial = it.nontrivial
    res._skipped = it.skipped_solves
    return res


def check(case):
    return run_program(case)


# ----------------------------------------------------------------------------- generators

def op_strategy():
    v = st.integers(0, MAXPOOL - 1)
    face = st.integers(0, 5)
    val = st.sampled_from([0.0, 1.0, -0.7, 2.5, 0.3])
    spec = st.fixed_dictionaries(dict(dt=st.sampled_from([0.1, 1.0, 10.0]), alpha=st.sampled_from([1.0, 2.0]),
                                      seed=st.integers(0, 1000), scheme=st.sampled_from(['none', 'central', 'upwind']),
                                      beta=st.booleans(), gamma=st.booleans(), dt_e=st.sampled_from([1e-3, 1e-2])))
    return st.one_of(
        st.fixed_dictionaries(dict(op=st.just('bc_set'), v=v, face=face, coef=st.sampled_from(['a', 'b', 'c']), val=st.sampled_from([0.0, 1.0, 0.5, 2.0, -1.0]))),
        st.fixed_dictionaries(dict(op=st.just('bc_slice'), v=v, face=face, coef=st.sampled_from(['a', 'b', 'c']), idx=st.integers(0, 8), val=st.sampled_from([0.25, 1.0, 1.5, -0.5]))),
        st.fixed_dictionaries(dict(op=st.just('bc_aug'), v=v, face=face, coef=st.sampled_from(['a', 'b', 'c']), how=st.sampled_from(['mul', 'add']),
                                   val=st.sampled_from([2.0, 0.5, -1.0, 1.5]))),
        st.fixed_dictionaries(dict(op=st.just('fixedValue'), v=v, face=face, val=val)),
        st.fixed_dictionaries(dict(op=st.just('fixedGradient'), v=v, face=face, val=val, scale=st.sampled_from([1.0, -1.0, 3.0]))),
        st.fixed_dictionaries(dict(op=st.just('newtonCooling'), v=v, face=face, k=st.sampled_from([1.0, 0.37]), h=st.sampled_from([0.9, 2.3]),
                                   T=val, rev=st.booleans())),
        st.fixed_dictionaries(dict(op=st.just('defaultNoFlux'), v=v, face=face)),
        st.fixed_dictionaries(dict(op=st.just('periodic'), v=v, face=face, val=st.booleans())),
        st.fixed_dictionaries(dict(op=st.just('val_set'), v=v, seed=st.integers(0, 1000))),
        st.fixed_dictionaries(dict(op=st.just('val_slice'), v=v, idx=st.integers(0, 26), val=val)),
        st.fixed_dictionaries(dict(op=st.just('update_value'), v=v, w=v)),
        st.fixed_dictionaries(dict(op=st.just('copy'), v=v)),
        st.fixed_dictionaries(dict(op=st.just('arith'), v=v, w=v, kind=st.sampled_from(['add_var', 'mul_sc', 'rsub_sc', 'neg']), sc=st.sampled_from([2.0, -0.5]))),
        st.fixed_dictionaries(dict(op=st.just('share'), v=v, seed=st.integers(0, 1000))),
        st.fixed_dictionaries(dict(op=st.just('apply'), v=v)),
        st.fixed_dictionaries(dict(op=st.just('solve'), v=v, spec=spec)),
        st.fixed_dictionaries(dict(op=st.just('solve'), v=v, spec=spec)),
        st.fixed_dictionaries(dict(op=st.just('explicit'), v=v, spec=spec)),
    )


@st.composite
def _case(draw):
    g = draw(gen.grids(nmax=3, nmax3=2))
    n = draw(st.sampled_from([2, 4, 8, 15, 25, 40]))
    ops = draw(st.lists(op_strategy(), min_size=n, max_size=n))
    # every program ends with a solve so that the history is judged
    tail = draw(st.fixed_dictionaries(dict(op=st.sampled_from(['solve', 'solve', 'explicit']), v=st.integers(0, MAXPOOL - 1),
                                           spec=st.fixed_dictionaries(dict(dt=st.sampled_from([0.1, 1.0]), alpha=st.just(1.0), seed=st.integers(0, 1000),
                                                                           scheme=st.sampled_from(['none', 'central', 'upwind']), beta=st.booleans(),
                                                                           gamma=st.booleans(), dt_e=st.just(1e-3))))))
    return dict(kind='program', grid=g, init_seed=draw(st.integers(0, 1000)), style=draw(st.sampled_from(['passed', 'default'])),
                ops=ops + [tail])


def strategy(tier):
    return _case()


def budget(tier):
    return 1500 if tier == "quick" else 40000


SPEC0 = dict(dt=0.5, alpha=1.0, seed=3, scheme='upwind', beta=False, gamma=True, dt_e=1e-3)
ALPHABET = [
    dict(op='fixedValue', v=0, face=1, val=1.5),
    dict(op='bc_slice', v=0, face=0, coef='c', idx=0, val=-0.7),
    dict(op='newtonCooling', v=0, face=1, k=1.0, h=0.9, T=2.0, rev=False),
    dict(op='periodic', v=0, face=1, val=True),
    dict(op='periodic', v=0, face=1, val=False),
    dict(op='val_set', v=0, seed=5),
    dict(op='val_slice', v=0, idx=0, val=3.0),
    dict(op='update_value', v=0, w=1),
    dict(op='copy', v=0),
    dict(op='arith', v=0, w=1, kind='mul_sc', sc=2.0),
    dict(op='share', v=0, seed=9),
    dict(op='apply', v=0),
    dict(op='solve', v=0, spec=SPEC0),
    dict(op='explicit', v=0, spec=SPEC0),
]
FINALS = [dict(op='solve', v=0, spec=SPEC0), dict(op='solve', v=-1, spec=SPEC0), dict(op='explicit', v=-1, spec=SPEC0)]
MESHES = [dict(name='Grid1D', faces=[[0.0, 0.2, 0.7, 1.0]], spacing=['random']),
          dict(name='Grid2D', faces=[[0.0, 0.4, 1.0], [0.0, 0.5, 1.5]], spacing=['random', 'random'])]


SMALL = dict(Grid1D=[[0.0, 0.2, 0.7, 1.0]], CylindricalGrid1D=[[0.5, 0.8, 1.5]], SphericalGrid1D=[[0.0, 0.4, 1.0]],
             Grid2D=[[0.0, 0.4, 1.0], [0.0, 0.5, 1.5]], CylindricalGrid2D=[[0.5, 0.8, 1.5], [0.0, 0.3, 1.0]],
             PolarGrid2D=[[0.5, 0.8, 1.5], [0.0, 1.0, 2.5]], Grid3D=[[0.0, 0.4, 1.0], [0.0, 0.5, 1.5], [0.0, 0.3, 1.0]],
             CylindricalGrid3D=[[0.5, 0.8, 1.5], [0.0, 1.0, 2.5], [0.0, 0.3, 1.0]],
             SphericalGrid3D=[[0.5, 0.8, 1.5], [0.4, 1.0, 2.0], [0.0, 1.0, 2.5]])


def single_edit_probes():
    """every single edit kind x every face x every grid class, applied to a CLEAN variable and followed by a solve:
    each edit on its own must be enough to invalidate the cached boundary data / ghost layer"""
    for name, faces in SMALL.items():
        g = dict(name=name, faces=faces, spacing=['random'] * len(faces))
        nf = 2 * len(faces)
        edits = []
        for f in range(nf):
            for coef in 'abc':
                edits.append(dict(op='bc_set', v=0, face=f, coef=coef, val=0.5))
                edits.append(dict(op='bc_slice', v=0, face=f, coef=coef, idx=0, val=1.5))
                edits.append(dict(op='bc_aug', v=0, face=f, coef=coef, how='mul', val=2.0))
                edits.append(dict(op='bc_aug', v=0, face=f, coef=coef, how='add', val=0.5))
            edits.append(dict(op='fixedValue', v=0, face=f, val=2.5))
            edits.append(dict(op='fixedGradient', v=0, face=f, val=0.3, scale=3.0))
            edits.append(dict(op='newtonCooling', v=0, face=f, k=1.0, h=0.9, T=2.0, rev=(f % 2 == 0)))
            edits.append(dict(op='periodic', v=0, face=f, val=True))
        edits += [dict(op='val_set', v=0, seed=5), dict(op='val_slice', v=0, idx=1, val=3.0), dict(op='update_value', v=0, w=1)]
        for e in edits:
            for pre in ([dict(op='apply', v=0)], [dict(op='solve', v=0, spec=SPEC0)]):
                for fin in (dict(op='solve', v=0, spec=SPEC0), dict(op='explicit', v=0, spec=SPEC0)):
                    yield dict(kind='probe', grid=g, init_seed=7, style='passed', ops=pre + [e, fin])
            # undo patterns: set then restore through another route, then solve
            if e['op'] == 'periodic':
                yield dict(kind='probe', grid=g, init_seed=7, style='default',
                           ops=[e, dict(op='solve', v=0, spec=SPEC0), dict(e, val=False), dict(op='solve', v=0, spec=SPEC0)])
            if e['op'] in ('fixedValue', 'newtonCooling'):
                yield dict(kind='probe', grid=g, init_seed=7, style='default',
                           ops=[e, dict(op='solve', v=0, spec=SPEC0), dict(op='defaultNoFlux', v=0, face=e['face']), dict(op='solve', v=0, spec=SPEC0)])


def enumerate_cases(tier):
    yield from single_edit_probes()
    for mi, g in enumerate(MESHES):
        maxlen = 4 if tier == 'thorough' else 3
        for L in range(0, maxlen + 1):
            for seq in itertools.product(range(len(ALPHABET)), repeat=L):
                for fin in FINALS:
                    yield dict(kind='enum', grid=g, init_seed=7, style='passed' if (sum(seq) % 2 == 0) else 'default',
                               ops=[ALPHABET[i] for i in seq] + [fin], word="".join(chr(65 + i) for i in seq))


def classify(case):
    ops = [o['op'] for o in case['ops']]
    out = dict(kind=case['kind'], grid=case['grid']['name'], style=case['style'], length=min(len(ops) // 5 * 5, 40))
    for o in set(ops):
        out[f"has[{o}]"] = 1
    return out


def nontrivial(case):
    """static version of the rule (the interpreter's dynamic flag is used by the stateful engine): a BC edit and a value edit
    precede the final solve, or a share / explicit->solve / copy+edit pattern occurs"""
    ops = [o['op'] for o in case['ops']]
    bc = any(o in ('bc_set', 'bc_slice', 'bc_aug', 'fixedValue', 'fixedGradient', 'newtonCooling', 'defaultNoFlux', 'periodic') for o in ops[:-1])
    val = any(o in ('val_set', 'val_slice', 'update_value') for o in ops[:-1])
    return (bc and val) or 'share' in ops[:-1] or ('explicit' in ops[:-1] and 'solve' in ops) or ('copy' in ops[:-1] and (bc or val))


# ----------------------------------------------------------------------------- Hypothesis stateful engine

CUSTOM_SHARDS = 16


def run_custom(tier, seed, shard, nshards, stats):
    """RuleBasedStateMachine: rules = operations with generated arguments, invariants after every step."""
    import hypothesis
    from hypothesis import HealthCheck, Phase, settings
    from hypothesis.stateful import RuleBasedStateMachine, initialize, invariant, rule, run_state_machine_as_test
    from ..common import jsonable

    holder = dict(last=None)
    n_examples = (12 if tier == 'quick' else 400)
    steps = 50

    class Machine(RuleBasedStateMachine):
        def __init__(self):
            super().__init__()
            self.it = None
            self.log = None

        @initialize(g=gen.grids(nmax=3, nmax3=2), init_seed=st.integers(0, 1000), style=st.sampled_from(['passed', 'default']))
        def setup(self, g, init_seed, style):
            self.res = Result()
            self.case = dict(kind='stateful', grid=g, init_seed=init_seed, style=style, ops=[])
            self.it = Interp(g, init_seed, style, self.res)
            self.it.abort = False
            self.it.invariants("construction")

        @rule(op=op_strategy())
        def do(self, op):
            if self.it is None or self.it.abort:
                return
            self.case['ops'].append(op)
            try:
                r = self.it.step(op)
                if r != 'skipped' and not self.it.abort:
                    self.it.invariants(op['op'])
            except HarnessError:
                raise
            except Exception as e:  # a crash inside pyfvtool on a documented operation is a failure, anything else a harness error
                from ..run import crash_failure
                cf = crash_failure(e)
                if cf is None:
                    raise
                self.res.fail(*cf)

        @invariant()
        def no_violation(self):
            if self.it is None:
                return
            bad = [f for f in self.res.failures if not f.known]
            holder['last'] = (jsonable(self.case), [f.as_dict() for f in self.res.failures])
            assert not bad, bad[0].msg

        def teardown(self):
            if self.it is not None:
                stats.evaluations += 1
                stats.units += len(self.case['ops'])
                from ..common import case_hash
                if self.it.nontrivial:
                    stats.nontrivial.add(case_hash(self.case))
                    if len(stats.samples) < 2:
                        stats.samples.append(jsonable(self.case))
                stats.hist["kind=stateful"] += 1
                stats.hist[f"stateful_len={min(len(self.case['ops']) // 10 * 10, 50)}"] += 1
                for f in self.res.failures:
                    if f.known:
                        b = stats.buckets.setdefault(f.bucket, dict(count=0, case=jsonable(self.case), msg=f.msg, mag=f.mag, known=f.known, size=10 ** 9))
                        b['count'] += 1

    try:
        run_state_machine_as_test(
            hypothesis.seed(seed)(Machine),
            settings=settings(max_examples=n_examples, stateful_step_count=steps, deadline=None, database=None,
                              report_multiple_bugs=False, suppress_health_check=list(HealthCheck),
                              phases=[Phase.generate, Phase.shrink] if tier == 'thorough' else [Phase.generate, Phase.shrink]))
    except AssertionError as e:
        case, fails = holder['last'] if holder['last'] else (None, [])
        bad = [f for f in fails if not f['known']]
        if case is None or not bad:
            raise
        from ..common import dumps
        f = bad[0]
        stats.buckets.setdefault(f['bucket'], dict(count=1, case=case, msg=f['msg'], mag=f['mag'], known=None, size=len(dumps(case))))
