"""C12  Time stepping: residual identity, steady states are fixed points, limits dt->0 / dt->inf, explicit step."""
import numpy as np
from hypothesis import strategies as st

import pyfvtool as pf

from .. import gen, oracle, problem
from ..common import (dims_of, full_shape, interior, is_periodic, make_grid, mk_face, nonuniform)
from ..result import Result

ID = "C12"
TOLERANCES = {"backward-Euler residual per cell (relative to the size of its terms)": 1e-9,
              "steady state reproduced": "1e-9 * (1 + cond-free factor theta*1e-6)",
              "dt->inf / dt->0 / implicit-explicit": "inequalities that are theorems for backward Euler (no tuned constant)",
              "explicit update": "bitwise-to-1-ulp"}
RULE = ("Generated: grid (9 classes, N 1..4 / 1..3, all spacings) x BCs (D/N/R face-wise, periodic with equal end cells) x "
        "spatial term set {diffusion, +central | upwind | upwind+TVD, +sink beta>0, +source gamma} x alpha scalar or per cell x "
        "old field x dt = theta/||alpha^-1 A||_inf with theta = 10^[-6,6] (12 decades) x 1..3 steps.  The ghost-eliminated "
        "interior operator A and its inverse are formed densely (small systems) to evaluate the bounds.  Non-trivial = alpha per "
        "cell and non-constant, old != steady state, >=1 advection term.  Distinct = SHA-1 of the canonical case.")
ASSUMPTIONS = ["periodic axes have equal end cells (K2 excluded by construction, counted)",
               "steady-state sub-checks need a non-singular steady problem (beta>0 or a Dirichlet/Robin side); others are skipped and counted in the histogram"]


@st.composite
def _case(draw):
    P = draw(problem.problems(dirfield=True))
    P['theta'] = draw(st.sampled_from([1.0, 2.0, 5.0, 3.3, 7.7])) * 10.0 ** draw(st.integers(-6, 5))
    return dict(P=P, rhs_seed=draw(st.integers(0, 2 ** 31 - 1)), order_seed=draw(st.integers(0, 2 ** 31 - 1)))


def strategy(tier):
    return _case()


def budget(tier):
    return 2000 if tier == "quick" else 80000


def _steady_ok(P):
    return P['beta'] is not None or problem.has_dirichlet_or_robin(P)


def classify(case):
    P = case['P']
    d = dims_of(P['faces'])
    return dict(grid=P['name'], N="x".join(map(str, d)), scheme=P['scheme'], alpha='scalar' if np.isscalar(P['alpha']) else 'cell',
                logtheta=int(np.floor(np.log10(P['theta']))), steady=_steady_ok(P), steps=P['steps'],
                periodic=sum(is_periodic(e) for e in P['bc']))


def nontrivial(case):
    P = case['P']
    if np.isscalar(P['alpha']):
        return False
    a = np.array(P['alpha'])
    f = np.array(P['init'])
    return a.max() != a.min() and P['scheme'] != 'none' and f.max() != f.min()


def _eliminate(m, P, d, phi):
    """ghost-eliminated interior operator: (Ae, se) with Ae x_I = se  <=>  A full(x) = s and the BC rows"""
    n = int(np.prod(full_shape(d)))
    A, s = problem.spatial_operator(m, P)
    Mbc, c = pf.boundaryConditionsTerm(phi.BCs)
    Mbc = Mbc.toarray()
    I = interior(d, np.arange(n)).ravel()
    G = np.array([i for i in range(n) if i not in set(I.tolist())])
    BG = Mbc[np.ix_(G, G)]
    BI = Mbc[np.ix_(G, I)]
    try:
        BGi = np.linalg.inv(BG)
    except np.linalg.LinAlgError:
        return None
    AI = A[np.ix_(I, I)]
    AG = A[np.ix_(I, G)]
    Ae = AI - AG @ BGi @ BI
    se = s[I] - AG @ BGi @ c[G]
    sabs = np.abs(s[I]) + np.abs(AG @ BGi) @ np.abs(c[G])      # size of the constituents of se (they may cancel)
    return Ae, se, A, s, I, sabs


def check(case):
    res = Result()
    P = case['P']
    name = P['name']
    d = dims_of(P['faces'])
    nint = int(np.prod(d))
    geo = oracle.Geometry(name, P['faces'])
    if any(is_periodic(e) for e in P['bc']):
        res.excluded.append('K2')
    m, BC, phi = problem.build_var(P)
    el = _eliminate(m, P, d, phi)
    if el is None:
        res.discarded = True
        res.discard_reason = 'bc-elimination-singular'
        return res
    Ae, se, A, s, I, sabs = el
    alpha = np.full(nint, float(P['alpha'])) if np.isscalar(P['alpha']) else np.array(P['alpha'], float).ravel()
    B = Ae / alpha[:, None]
    nB = float(np.abs(B).sum(axis=1).max())
    nA = float((np.abs(A)[I] / alpha[:, None]).sum(axis=1).max())
    degenerate = False
    if not np.isfinite(nB):
        res.discarded = True
        res.discard_reason = 'degenerate-operator'
        return res
    if nB <= 1e-10 * nA:
        # the eliminated operator vanishes (e.g. one cell, Neumann everywhere): no time scale to refer dt to; the residual
        # identity and the explicit-step laws are still checked (dt = theta), the dt-limit bounds are not
        degenerate = True
        nB = 1.0
    dt = P['theta'] / nB
    theta = P['theta']
    tag = f"{P['scheme']}:{name}"
    u = mk_face(m, P['u'])
    uw = mk_face(m, P['uw']) if P.get('uw') is not None else None
    FL = pf.fluxLimiter(P['FL'])

    # ---- (i) residual identity over 1..3 steps.  The usual time loop: the SAME solution variable, the same spatial term
    # objects, and - for a per-cell alpha - the same coefficient variable, whose values are updated in place between steps
    # (a storage coefficient that depends on the solution); every step must use the values current at that step
    alpha0 = alpha.copy()
    acv = None if np.isscalar(P['alpha']) else problem.cellvar(m, P['alpha'])
    spatial = problem.spatial_terms(m, dict(P, scheme='upwind' if P['scheme'] == 'tvd' else P['scheme']))
    for k in range(P['steps']):
        oldfull = np.array(phi._value, float)
        old = np.array(phi.value, float).ravel()
        tv = (pf.convectionTVDupwindRHSTerm(u, phi, FL) if uw is None else pf.convectionTVDupwindRHSTerm(u, phi, FL, uw)) if P['scheme'] == 'tvd' \
            else np.zeros(A.shape[0])
        if acv is not None and k > 0:
            alpha = alpha0 * (1.0 + 0.5 * k)
            acv.value = alpha.reshape(d)
        tl = [pf.transientTerm(phi, dt, float(P['alpha']) if acv is None else acv)] + spatial + ([tv] if P['scheme'] == 'tvd' else [])
        # the term list is a sum: its order is arbitrary (the transient pair need not come first)
        perm = np.random.Generator(np.random.PCG64(case.get('order_seed', 0) + k)).permutation(len(tl))
        tl = [tl[i] for i in perm]
        pf.solvePDE(phi, tl)
        newfull = np.array(phi._value, float)
        if not np.all(np.isfinite(newfull)):
            res.discarded = True
            res.discard_reason = 'nonfinite-step'
            return res
        new = newfull[tuple(slice(1, -1) for _ in d)].ravel()
        t1 = alpha * (new - old) / dt
        t2 = (A @ newfull.ravel())[I]
        t3 = (s + tv)[I]
        sc = alpha * (np.abs(new) + np.abs(old)) / dt + (np.abs(A) @ np.abs(newfull.ravel()))[I] + np.abs(t3)
        sc = sc + 1e-3 * sc.max() + 1e-300
        res.expect_small("residual", float(np.max(np.abs(t1 + t2 - t3) / sc)), 1e-9, f"residual:{tag}",
                         f"backward-Euler step does not satisfy alpha*(new-old)/dt + A new = s in every cell ({tag}, "
                         f"alpha {'cell' if not np.isscalar(P['alpha']) else 'scalar'})")

    alpha = alpha0
    # ---- (iv) explicit step: old + dt*RHS, input untouched
    m, BC, phi = problem.build_var(P)
    phi.apply_BCs()   # documented duty of the caller when a variable is used before solvePDE (matters for BCs edited after construction)
    rhs = gen.expand('generic', case['rhs_seed'], (A.shape[0],))
    snap = (np.array(phi._value, copy=True), [np.array(getattr(getattr(phi.BCs, sd), k), copy=True)
                                              for sd in ('left', 'right', 'bottom', 'top', 'back', 'front') for k in 'abc'])
    dte = min(dt, 1.0)
    out = pf.solveExplicitPDE(phi, dte, rhs)
    want = np.array(P['init'], float) + dte * interior(d, rhs)
    got = np.asarray(out.value, float)
    if not np.all(np.abs(got - want) <= 2 * np.spacing(np.abs(want) + np.abs(dte * interior(d, rhs)))):
        res.fail(f"explicit-update:{name}", f"solveExplicitPDE interior != old + dt*RHS on {name}", float(np.abs(got - want).max()))
    if out is phi:
        res.fail("explicit-returns-input", "solveExplicitPDE returned its input variable")
    after = (np.array(phi._value), [np.array(getattr(getattr(phi.BCs, sd), k)) for sd in ('left', 'right', 'bottom', 'top', 'back', 'front') for k in 'abc'])
    if not np.array_equal(after[0], snap[0]) or not all(np.array_equal(a, b) for a, b in zip(after[1], snap[1])):
        res.fail(f"explicit-mutates-input:{name}", f"solveExplicitPDE changed its input variable on {name}")
    for ax, side, r in oracle.bc_residual(geo, np.asarray(out._value, float), P['bc']):
        res.expect_small("explicit-ghosts", r, 1e-9, f"explicit-ghosts:{name}", f"boundary values not re-imposed after solveExplicitPDE on {name}")

    lin = P['scheme'] != 'tvd'
    old = np.array(P['init'], float).ravel()
    r0 = (Ae @ old - se) / alpha

    # ---- (iii-b) dt -> 0 and (v) implicit vs explicit
    if lin and theta <= 0.1 and not degenerate:
        m, BC, phi = problem.build_var(P)
        problem.step_implicit(m, phi, P, dt)
        new = np.asarray(phi.value, float).ravel()
        bound = 1.2 * dt * np.abs(r0).max()
        # rounding: relative to the values and to the (possibly cancelling) constituents of dt*(A old - s)/alpha
        slack = 1e-12 * (np.abs(old).max() + np.abs(new).max()) + 1e-12 * dt * float(((np.abs(Ae) @ np.abs(old) + sabs) / alpha).max())
        if np.abs(new - old).max() > bound + slack:
            res.fail(f"small-dt:{tag}", f"||new-old|| = {np.abs(new - old).max():.3e} exceeds 1.2*dt*||alpha^-1 (A old - s)|| = {bound:.3e} "
                     f"for theta={theta:.2e} ({tag})", float(np.abs(new - old).max() / (bound + 1e-300)))
        if theta <= 0.02:
            m2, BC2, ph2 = problem.build_var(P)
            ph2.apply_BCs()
            rhs_e = np.zeros(A.shape[0])
            full_old = np.asarray(ph2._value, float).ravel()
            rhs_e[I] = -((A @ full_old)[I] - s[I]) / alpha
            ex = np.asarray(pf.solveExplicitPDE(ph2, dt, rhs_e).value, float).ravel()
            diff = new - ex
            bound = dt ** 2 * nB * np.abs(r0).max() / (1 - theta)
            if np.abs(diff).max() > bound * (1 + 1e-9) + slack:
                res.fail(f"implicit-explicit-bound:{tag}", f"implicit - explicit step = {np.abs(diff).max():.3e} exceeds the O(dt^2) bound {bound:.3e} ({tag})")
            lead = dt ** 2 * (B @ r0)
            if np.abs(lead).max() > 1e6 * slack and np.abs(diff - lead).max() > 2.5 * theta * np.abs(lead).max() + 10 * slack:
                res.fail(f"implicit-explicit-leading:{tag}", f"implicit - explicit step does not match dt^2 * B r to relative 2*dt*||B|| ({tag})",
                         float(np.abs(diff - lead).max() / np.abs(lead).max()))

    # ---- (ii) steady state is a fixed point, (iii-a) dt -> inf
    if lin and _steady_ok(P) and not degenerate:
        try:
            Ainv = np.linalg.inv(Ae)
        except np.linalg.LinAlgError:
            return res
        star = Ainv @ se
        cond = float(np.abs(Ainv).sum(axis=1).max() * np.abs(Ae).sum(axis=1).max())
        # the library solves the full system (ghost rows included), whose conditioning can be far worse than the eliminated one's
        Mb_full, _ = pf.boundaryConditionsTerm(phi.BCs)
        try:
            condF = float(np.linalg.cond(Mb_full.toarray() + A))
        except np.linalg.LinAlgError:
            condF = float('inf')
        if not np.all(np.isfinite(star)) or cond > 1e10 or not condF < 1e10:
            res.discarded = True
            res.discard_reason = 'steady-illconditioned'
            return res
        cond = max(cond, condF)
        # the code's own steady solve
        m, BC, phi = problem.build_var(P)
        pf.solvePDE(phi, problem.spatial_terms(m, P))
        st_code = np.asarray(phi.value, float).ravel()
        if not np.all(np.isfinite(st_code)):
            res.discarded = True
            res.discard_reason = 'steady-nonfinite'
            return res
        # scale: the steady solution, or - when that is (numerically) zero - the size of the data
        dscale = float(np.abs(old).max())
        if P.get('gamma') is not None:
            dscale = max(dscale, float(np.abs(np.array(P['gamma'], float)).max()))
        for e in P['bc']:
            for sd in ('lo', 'hi'):
                dscale = max(dscale, float(np.abs(np.array(e[sd]['c'], float)).max()))
        # ... and never below what rounding in the (possibly cancelling) constituents of the right-hand side amounts to
        scs = max(float(np.abs(star).max()), 1e-6 * dscale, float((np.abs(Ainv) @ sabs).max()) * 1e-3, 1e-300)
        res.expect_small("steady-solve", float(np.abs(st_code - star).max() / scs), 1e-9 * max(1.0, cond * 1e-6), f"steady-solve:{tag}",
                         f"steady solvePDE != solution of the eliminated system ({tag})")
        # transient step from the steady state (the step's own system alpha/dt + A must be well conditioned: for
        # operators with negative eigenvalues - central advection with inflow, anti-dissipative Robin data - a dt exists
        # at which it is singular)
        T = np.diag(alpha / dt) + Ae
        try:
            # amplification of rounding: size of the constituents (alpha/dt and A, which may cancel) over the smallest singular value
            smin = float(np.linalg.svd(T, compute_uv=False).min())
            cT = (float(np.abs(alpha / dt).max()) + float(np.abs(Ae).sum(axis=1).max())) / smin if smin > 0 else float('inf')
        except np.linalg.LinAlgError:
            cT = float('inf')
        if not cT < 1e8:
            res.discarded = True
            res.discard_reason = 'step-system-illconditioned'
            return res
        problem.step_implicit(m, phi, P, dt)
        new = np.asarray(phi.value, float).ravel()
        res.expect_small("fixed-point", float(np.abs(new - st_code).max() / scs), 1e-9 * max(1.0, (cond + cT) * 1e-6), f"fixed-point:{tag}",
                         f"a transient step (theta={theta:.1e}, alpha {'cell' if not np.isscalar(P['alpha']) else 'scalar'}) moved the steady solution ({tag})")
        if theta >= 1e6:
            m, BC, phi = problem.build_var(P)
            problem.step_implicit(m, phi, P, dt)
            new = np.asarray(phi.value, float).ravel()
            q = float(np.abs(Ainv * alpha[None, :]).sum(axis=1).max()) / dt
            if q <= 0.5:
                bound = 2 * q * np.abs(old - star).max()
                slack = 1e-9 * max(1.0, cond * 1e-6) * (scs + np.abs(old).max())
                if np.abs(new - star).max() > bound + slack:
                    res.fail(f"large-dt:{tag}", f"||new - steady|| = {np.abs(new - star).max():.3e} exceeds 2||A^-1 alpha||/dt * ||old - steady|| = {bound:.3e} ({tag})")
    return res
