"""C10  Grid geometry: faces, centres, sizes, true cell volumes, label reachability."""
import math

import numpy as np
from hypothesis import strategies as st

import pyfvtool as pf

from .. import gen, oracle
from ..common import AXES, GRIDS, LABELS, NDIM, dims_of, nonuniform
from ..result import Result

ID = "C10"
TOLERANCES = {"faces": "bitwise (face form) / 4 ulp of L ((N,L) form)", "centres/sizes": "4 ulp of the coordinate scale",
              "cell volume": 1e-12, "labels": "object identity"}
RULE = ("Generated: 9 classes x constructor form {face arrays, (N..,L..)} x N in 1..6 (occasionally 40) per axis x strictly "
        "increasing faces with width ratios up to 1e4 (and almost-equispaced ones, relative differences 1e-6..1e-9), partial / full angular ranges, radial origin 0 or offset, polar-angle "
        "faces touching 0 and pi.  Oracle = closed-form geometry per cell.  Non-trivial = face form with non-uniform faces and "
        ">=2 cells on every axis (a wrong distribution over cells is invisible otherwise).  Distinct = SHA-1 of the case.")
ASSUMPTIONS = ["K1: SphericalGrid3D.cellvolume is compared with the geometric volume only through the factor the known "
               "finding allows, 2*dtheta/(pi*(cos th1 - cos th2)) per cell, independent of r and phi"]
ALL_LABELS = ['x', 'y', 'z', 'r', 'theta', 'phi']


@st.composite
def _case(draw):
    name = draw(st.sampled_from(GRIDS))
    kinds = AXES[name]
    form = draw(st.sampled_from(['faces', 'faces', 'NL']))
    if form == 'NL':
        Ns = [draw(st.one_of(st.integers(1, 6), st.just(40))) if len(kinds) < 3 else draw(st.integers(1, 5)) for _ in kinds]
        Ls = []
        for k in kinds:
            if k in ('x', 'r'):
                Ls.append(draw(st.sampled_from([1.0, 0.1, 3.7, 1e-3, 250.0, 2.0 / 3.0])))
            elif k in ('thc', 'ph'):
                Ls.append(draw(st.sampled_from([2 * math.pi, 1.0, math.pi / 3])))
            else:
                Ls.append(draw(st.sampled_from([math.pi, 1.0, 2.5])))
        return dict(name=name, form='NL', N=Ns, L=Ls)
    faces = []
    for k in kinds:
        n = draw(st.one_of(st.integers(1, 6), st.integers(1, 6), st.just(40))) if len(kinds) < 3 else draw(st.integers(1, 5))
        style = draw(st.sampled_from(['random', 'wild', 'uniform', 'ratio', 'nearly']))
        if style == 'nearly':
            # almost equispaced: widths differ by a relative 1e-6 .. 1e-9 (a slightly graded mesh, or faces from accumulated
            # arithmetic) - the sizes must still be the face differences, not an idealised common width
            eps = draw(st.sampled_from([1e-6, 1e-7, 1e-9]))
            w = 1.0 + eps * np.array([draw(st.integers(-8, 8)) for _ in range(n)]) / 8.0
            cs = np.concatenate([[0.0], np.cumsum(w)]) / w.sum()
            cs[-1] = 1.0
            base = draw(gen.axis_faces(k, n, 'uniform', theta_touch=True))
            f = base[0] + (base[-1] - base[0]) * cs
            faces.append([float(x) for x in f])
        elif style == 'wild':
            w = 10.0 ** np.array([draw(st.floats(-2, 2)) for _ in range(n)])
            cs = np.concatenate([[0.0], np.cumsum(w)]) / w.sum()
            cs[-1] = 1.0
            base = draw(gen.axis_faces(k, n, 'uniform', theta_touch=True))
            f = base[0] + (base[-1] - base[0]) * cs
            faces.append([float(x) for x in f])
        else:
            faces.append(draw(gen.axis_faces(k, n, style, theta_touch=True)))
    return dict(name=name, form='faces', faces=faces)


def strategy(tier):
    return _case()


def budget(tier):
    return 6000 if tier == "quick" else 600000


def _faces(case):
    if case['form'] == 'faces':
        return [np.array(f, float) for f in case['faces']]
    return [np.linspace(0.0, L, N + 1) for N, L in zip(case['N'], case['L'])]


def classify(case):
    f = _faces(case)
    return dict(grid=case['name'], form=case['form'], N="x".join(str(len(x) - 1) for x in f) if max(len(x) for x in f) < 10 else "big",
                nonuniform=nonuniform(f))


def nontrivial(case):
    f = _faces(case)
    return case['form'] == 'faces' and nonuniform(f) and all(len(x) - 1 >= 2 for x in f) and \
        all(nonuniform([x]) for x in f)


def _ulp_close(a, b, scale, n=4):
    a = np.asarray(a, float)
    b = np.asarray(b, float)
    if a.shape != b.shape:
        return False
    return bool(np.all(np.abs(a - b) <= n * np.spacing(scale)))


def check(case):
    res = Result()
    name = case['name']
    nd = NDIM[name]
    if case['form'] == 'faces':
        args = [np.array(f, float) for f in case['faces']]
    else:
        args = list(case['N']) + list(case['L'])
    m = getattr(pf, name)(*args)
    f = _faces(case)
    dims = tuple(len(x) - 1 for x in f)
    geo = oracle.Geometry(name, f)
    tag = f"{name}:{case['form']}"
    if tuple(int(x) for x in m.dims) != dims:
        res.fail(f"dims:{tag}", f"dims {tuple(m.dims)} != {dims}")
        return res
    internal = ['_x', '_y', '_z']
    for ax in range(nd):
        fc = np.asarray(getattr(m.facecenters, internal[ax]), float)
        cc = np.asarray(getattr(m.cellcenters, internal[ax]), float)
        cs = np.asarray(getattr(m.cellsize, internal[ax]), float)
        scale = max(abs(f[ax][0]), abs(f[ax][-1]))
        if case['form'] == 'faces':
            if fc.shape != f[ax].shape or np.any(fc != f[ax]):
                res.fail(f"facecenters:{tag}", f"face positions of axis {ax} not returned as given")
        else:
            if not _ulp_close(fc, f[ax], scale):
                res.fail(f"facecenters:{tag}", f"(N,L) face positions of axis {ax} differ from linspace(0,L,N+1)",
                         float(np.abs(fc - f[ax]).max()) if fc.shape == f[ax].shape else None)
        if not _ulp_close(cc, geo.c[ax], scale):
            res.fail(f"cellcenters:{tag}", f"cell centres of axis {ax} not midway between faces")
        wg = geo.wg[ax]
        if not _ulp_close(cs, wg, scale):
            res.fail(f"cellsize:{tag}", f"cell sizes of axis {ax} != face differences with ghost sizes repeating the end cells")
        if cs.shape == wg.shape and (cs[0] != cs[1] or cs[-1] != cs[-2]) and case['form'] == 'faces':
            res.fail(f"ghostsize:{tag}", f"ghost cell size of axis {ax} does not repeat the adjacent end cell")
    # volumes
    V = np.asarray(m.cellvolume, float)
    if V.shape != dims:
        res.fail(f"volume-shape:{tag}", f"cellvolume shape {V.shape} != dims {dims}")
        return res
    if not np.all(V > 0):
        res.fail(f"volume-positive:{tag}", "cellvolume not positive")
    if name == 'SphericalGrid3D':
        # K1: code has dtheta/pi where geometry has (cos th1 - cos th2)/2
        th = f[1]
        fac = (2 * np.diff(th) / (np.pi * (np.cos(th[:-1]) - np.cos(th[1:]))))[None, :, None]
        want_code = geo.V * fac
        e = float(np.abs(V - want_code).max() / np.abs(want_code).max())
        res.expect_small("volume-sph3d-rphi", e, 1e-12, f"volume:{tag}",
                         "SphericalGrid3D cellvolume deviates from the geometric volume by more than the known theta factor")
        eg = float(np.abs(V - geo.V).max() / np.abs(geo.V).max())
        if eg > 1e-12:
            res.fail("volume-geometric:SphericalGrid3D", "SphericalGrid3D.cellvolume != (r2^3-r1^3)/3 (cos th1-cos th2) dphi "
                     f"(relative {eg:.2e})", eg, known="K1")
    else:
        e = float(np.abs(V - geo.V).max() / np.abs(geo.V).max())
        res.expect_small("volume", e, 1e-12, f"volume:{tag}", f"cellvolume != geometric cell volume on {name}")
        tot = geo.total_volume()
        res.expect_small("volume-total", abs(float(V.sum()) - tot) / tot, 1e-12, f"volume-total:{tag}",
                         f"sum of cellvolume != domain volume on {name}")
    # labels: reachable under exactly the documented labels
    lab = LABELS[name]
    for obj_name in ('cellsize', 'cellcenters', 'facecenters'):
        obj = getattr(m, obj_name)
        for L in ALL_LABELS:
            try:
                got = getattr(obj, L)
                ok = L in lab and got is getattr(obj, internal[lab[L]])
                if not ok:
                    res.fail(f"label:{name}", f"{obj_name}.{L} on {name} returned an array (documented: "
                             f"{'other axis' if L in lab else 'AttributeError'})")
            except AttributeError:
                if L in lab:
                    res.fail(f"label:{name}", f"{obj_name}.{L} on {name} raised AttributeError but is documented")
    # vector components: reachable (read and whole-array assignment) under exactly the documented component labels
    from ..common import face_shapes
    comps = [np.full(sh, i + 1.0) for i, sh in enumerate(face_shapes(dims))]
    while len(comps) < 3:
        comps.append(np.array([]))
    fv = pf.FaceVariable(m, *comps)
    slots = ['_xvalue', '_yvalue', '_zvalue']
    for L in ALL_LABELS:
        labv = L + 'value'
        if L in lab:
            ax = lab[L]
            try:
                if getattr(fv, labv) is not getattr(fv, slots[ax]):
                    res.fail(f"component-label:{name}", f"FaceVariable.{labv} on {name} does not return component {ax}")
                newv = np.asarray(getattr(fv, slots[ax]), float) + 10.0
                before = [getattr(fv, sl) for sl in slots]
                setattr(fv, labv, newv)
                after = [getattr(fv, sl) for sl in slots]
                if after[ax] is not newv or getattr(fv, labv) is not newv or any(after[i] is not before[i] for i in range(3) if i != ax):
                    res.fail(f"component-label-set:{name}", f"FaceVariable.{labv} = array on {name}: the assigned array is not what the label (and only the "
                             f"label's component {ax}) holds afterwards")
            except AttributeError:
                res.fail(f"component-label:{name}", f"FaceVariable.{labv} on {name} raised AttributeError but is documented")
        else:
            for op in ('get', 'set'):
                try:
                    getattr(fv, labv) if op == 'get' else setattr(fv, labv, np.zeros(1))
                    res.fail(f"component-label:{name}", f"FaceVariable.{labv} ({op}) on {name} is foreign to the grid's coordinate system but did not raise")
                except AttributeError:
                    pass
    return res
