"""C05  Implicit matrix terms == explicit gradient/mean/divergence chain (differential, complete in phi)."""
import numpy as np
from hypothesis import strategies as st

import pyfvtool as pf

from .. import gen, oracle
from ..common import (AXES, GRIDS, NDIM, dims_of, face_shapes, full_shape, interior, make_grid, mk_face,
                      nonuniform)
from ..result import Result

ID = "C05"
RTOL = 1e-9
TOLERANCES = {"operator identity (relative to largest coefficient)": RTOL, "zero limiter": "bitwise 0"}
RULE = ("Hypothesis draws grid class (9), N in 1..4 per axis (1..3 in 3-D), spacing per axis "
        "(uniform / geometric / random widths 0.2..5), radial origin (0 or offset), face fields D, u and a "
        "separate upwind-direction field w (all sign patterns incl. exact zeros), a limiter name and a full "
        "cell field; every linear identity is decided on the complete canonical basis of full cell arrays "
        "(ghost cells included).  Non-trivial = non-uniform spacing on >=1 axis, >=2 cells on >=1 axis, "
        "u has both signs within one component, and >=1 inflow and >=1 outflow boundary face. "
        "Distinct = distinct SHA-1 of the canonical case.")
ASSUMPTIONS = ["direction field w is exactly zero only on faces where u is zero (K5 excluded by construction)",
               "TVD limiter identities asserted on grids uniform along every axis, as the property states",
               "N<=4 per axis: every stencil block's first/interior/last/only-cell paths are exercised"]
TRUSTED = []


@st.composite
def _case(draw, tier):
    nmax = 4
    g = draw(gen.grids(nmax=nmax, nmax3=3 if tier == 'quick' else 3))
    d = dims_of(g['faces'])
    D = draw(gen.face_field(d, styles=('pos', 'const', 'generic', 'zeros'), lo=0.0, hi=2.0))
    u = draw(gen.face_field(d))
    w = draw(gen.face_field(d, styles=('generic', 'pos', 'neg', 'int')))
    # K5: a direction field that is exactly zero on a face whose coefficient is not -> excluded by
    # construction: w := sign-preserving copy, zeros of w moved onto zeros of u
    w2 = []
    nfix = 0
    for uc, wc in zip(u, w):
        uc = np.array(uc, dtype=float)
        wc = np.array(wc, dtype=float)
        bad = (wc == 0) & (uc != 0)
        nfix += int(bad.sum())
        wc[bad] = 1.0
        w2.append(wc.tolist())
    phi = draw(gen.cell_full(d, styles=('generic', 'int', 'quarter', 'zeros')))
    fl = draw(gen.limiter_names)
    tvd_uniform = draw(st.booleans())
    case = dict(grid=g, D=D, u=u, w=w2, phi=phi, FL=fl, k5_moved=nfix)
    if tvd_uniform:
        # companion grid of the same class and cell counts, uniform along every axis, for the TVD identities
        case['ugrid'] = dict(name=g['name'], faces=[np.linspace(f[0], f[-1], len(f)).tolist() for f in g['faces']])
    return case


def strategy(tier):
    return _case(tier)


EXHAUSTIVE_NOTE = ("every sign pattern {-,0,+} of the face velocity on a non-uniform 3-cell grid of the three 1-D classes (81 patterns each) and on a "
                   "2x1 grid of the three 2-D classes (2187 patterns each); every admissible (velocity sign, direction sign) pair per face on a 2-cell "
                   "1-D grid (7^3 patterns per class)")


def enumerate_cases(tier):
    import itertools
    one = [('Grid1D', [[0.0, 0.2, 0.7, 1.0]]), ('CylindricalGrid1D', [[0.5, 0.7, 1.2, 1.5]]), ('SphericalGrid1D', [[0.0, 0.3, 0.8, 1.0]])]
    two = [('Grid2D', [[0.0, 0.3, 1.0], [0.0, 0.5]]), ('CylindricalGrid2D', [[0.5, 0.8, 1.5], [0.0, 0.5]]), ('PolarGrid2D', [[0.5, 0.8, 1.5], [0.3, 1.5]])]
    mag = lambda sh, k: gen.expand('pos', k, sh, 0.2, 1.5)
    for name, faces in one + two:
        d = dims_of(faces)
        shapes = face_shapes(d)
        nf = [int(np.prod(sh)) for sh in shapes]
        g = dict(name=name, faces=faces, spacing=['random'] * len(d))
        D = [mag(sh, 3 + i).tolist() for i, sh in enumerate(shapes)]
        phi = gen.expand('quarter', 9, full_shape(d)).tolist()
        for signs in itertools.product((-1.0, 0.0, 1.0), repeat=sum(nf)):
            u, k = [], 0
            for i, sh in enumerate(shapes):
                u.append((mag(sh, 11 + i) * np.array(signs[k:k + nf[i]]).reshape(sh)).tolist())
                k += nf[i]
            w = [np.where(np.array(c) == 0, 0.0, np.sign(c)).tolist() for c in u]
            yield dict(grid=g, D=D, u=u, w=w, phi=phi, FL='VanLeer', k5_moved=0, ugrid=dict(name=name, faces=[np.linspace(f[0], f[-1], len(f)).tolist() for f in faces]))
    pairs = [(su, sw) for su in (-1.0, 0.0, 1.0) for sw in (-1.0, 0.0, 1.0) if not (sw == 0 and su != 0)]
    for name, faces in [('Grid1D', [[0.0, 0.3, 1.0]]), ('CylindricalGrid1D', [[0.5, 0.8, 1.5]]), ('SphericalGrid1D', [[0.0, 0.4, 1.0]])]:
        d = dims_of(faces)
        g = dict(name=name, faces=faces, spacing=['random'])
        for combo in itertools.product(pairs, repeat=3):
            u = [[0.7 * c[0] for c in combo]]
            w = [[1.3 * c[1] for c in combo]]
            yield dict(grid=g, D=[[1.0, 0.5, 2.0]], u=u, w=w, phi=gen.expand('quarter', 4, full_shape(d)).tolist(), FL='Koren', k5_moved=0)


def budget(tier):
    return 3000 if tier == "quick" else 120000


def classify(case):
    g = case['grid']
    d = dims_of(g['faces'])
    return dict(grid=g['name'], N="x".join(map(str, d)), nonuniform=nonuniform(g['faces']),
                r0=(g['faces'][0][0] == 0.0) if AXES[g['name']][0] == 'r' else 'n/a', FL=case['FL'],
                tvd_uniform='ugrid' in case)


def nontrivial(case):
    g = case['grid']
    d = dims_of(g['faces'])
    if not nonuniform(g['faces']) or max(d) < 2:
        return False
    mixed = any((np.array(c) > 0).any() and (np.array(c) < 0).any() for c in case['u'])
    inflow = outflow = False
    for ax, c in enumerate(case['u']):
        c = np.array(c)
        lo = np.take(c, 0, axis=ax)
        hi = np.take(c, -1, axis=ax)
        inflow |= bool((lo > 0).any() or (hi < 0).any())
        outflow |= bool((lo < 0).any() or (hi > 0).any())
    return mixed and inflow and outflow


def _basis_apply(m, d, fn):
    """apply fn(CellVariable) -> full-length vector to every canonical basis field; returns
    matrix (n_interior, n_full)"""
    shp = full_shape(d)
    n = int(np.prod(shp))
    cols = []
    for k in range(n):
        e = np.zeros(n)
        e[k] = 1.0
        cv = pf.CellVariable(m, e.reshape(shp), BCsTerm_precalc=False)
        cols.append(interior(d, fn(cv)).ravel())
    return np.array(cols).T


def _mat_interior(d, M):
    A = M.toarray()
    n = A.shape[0]
    rows = interior(d, np.arange(n)).ravel()
    return A[rows, :]


def _cmp(res, name, sub, A, B, known=None):
    sc = max(np.abs(A).max(), np.abs(B).max())
    if not np.isfinite(sc):
        res.fail(f"{sub}:{name}", f"{sub} on {name}: non-finite operator entries", float('inf'), known)
        return
    err = 0.0 if sc == 0 else float(np.abs(A - B).max() / sc)
    res.expect_small(sub, err, RTOL, f"{sub}:{name}", f"{sub} on {name}: matrix term != explicit chain", known)


def check(case):
    res = Result()
    g = case['grid']
    name = g['name']
    m = make_grid(name, g['faces'])
    d = dims_of(g['faces'])
    nd = len(d)
    D = mk_face(m, case['D'])
    u = mk_face(m, case['u'])
    w = mk_face(m, case['w'])
    if case.get('k5_moved'):
        res.excluded.append('K5')
    k5 = None
    if case.get('demo_k5') and any(np.any((np.array(wc) == 0) & (np.array(uc) != 0)) for uc, wc in zip(case['u'], case['w'])):
        k5 = 'K5'     # replay of the known finding: direction field exactly zero on a face whose coefficient is not

    _cmp(res, name, "diffusion", _mat_interior(d, pf.diffusionTerm(D)),
         _basis_apply(m, d, lambda cv: pf.divergenceTerm(D * pf.gradientTerm(cv))))
    _cmp(res, name, "central", _mat_interior(d, pf.convectionTerm(u)),
         _basis_apply(m, d, lambda cv: pf.divergenceTerm(u * pf.linearMean(cv))))
    _cmp(res, name, "upwind", _mat_interior(d, pf.convectionUpwindTerm(u)),
         _basis_apply(m, d, lambda cv: pf.divergenceTerm(u * pf.upwindMean(cv, u))))
    _cmp(res, name, "upwind-dir", _mat_interior(d, pf.convectionUpwindTerm(u, w)),
         _basis_apply(m, d, lambda cv: pf.divergenceTerm(u * pf.upwindMean(cv, w))), known=k5)

    # ---- TVD: zero limiter (any grid): correction vanishes bitwise
    phi = pf.CellVariable(m, np.array(case['phi'], dtype=float), BCsTerm_precalc=False)
    z = np.asarray(pf.convectionTVDupwindRHSTerm(u, phi, lambda r: np.zeros_like(r)))
    if z.shape != (int(np.prod(full_shape(d))),) or np.any(z != 0):
        res.fail(f"tvd-zero:{name}", f"TVD RHS with zero limiter is not identically zero on {name}",
                 float(np.abs(z).max()) if z.size else None)
    z = np.asarray(pf.convectionTVDupwindRHSTerm(u, phi, lambda r: np.zeros_like(r), w))
    if np.any(z != 0):
        res.fail(f"tvd-zero:{name}", f"TVD RHS (direction field) with zero limiter not zero on {name}",
                 float(np.abs(z).max()))

    # ---- solver level: one explicit step from the chain == from the matrices
    x = phi._value.ravel()
    rhs_mat = -(pf.convectionUpwindTerm(u) @ x) + pf.diffusionTerm(D) @ x
    rhs_chain = -pf.divergenceTerm(u * pf.upwindMean(phi, u)) + pf.divergenceTerm(D * pf.gradientTerm(phi))
    dt = 0.01
    a = pf.solveExplicitPDE(phi, dt, rhs_mat)
    b = pf.solveExplicitPDE(phi, dt, rhs_chain)
    sc = max(np.abs(a._value).max(), np.abs(b._value).max(), 1e-300)
    res.expect_small("explicit-step", float(np.abs(np.asarray(a._value) - np.asarray(b._value)).max() / sc), RTOL,
                     f"explicit-step:{name}", f"solveExplicitPDE step from chain != from matrices on {name}")

    # ---- TVD identities on a grid uniform along every axis
    if 'ugrid' in case:
        ug = case['ugrid']
        mu = make_grid(name, ug['faces'])
        uu = mk_face(mu, case['u'])
        wu = mk_face(mu, case['w'])
        one = lambda r: np.ones_like(r)
        Mup = _mat_interior(d, pf.convectionUpwindTerm(uu))
        Mce = _mat_interior(d, pf.convectionTerm(uu))
        T = _basis_apply(mu, d, lambda cv: pf.convectionTVDupwindRHSTerm(uu, cv, one))
        _cmp(res, name, "tvd-unit", Mup - T, Mce)
        # all 16 limiters against the independently reconstructed limited correction
        phiu = pf.CellVariable(mu, np.array(case['phi'], dtype=float), BCsTerm_precalc=False)
        fl = case['FL']
        got = interior(d, pf.convectionTVDupwindRHSTerm(uu, phiu, pf.fluxLimiter(fl), wu))
        lim = lambda r: oracle.limiter_np(fl, r)
        comps = []
        for ax in range(nd):
            pp, pm = oracle.tvd_face_correction(case['phi'], ax, nd, lim)
            uc = np.array(case['u'][ax], dtype=float)
            wc = np.array(case['w'][ax], dtype=float)
            comps.append(uc * np.where(wc > 0, pp, np.where(wc < 0, pm, 0.0)))
        want = -interior(d, pf.divergenceTerm(mk_face(mu, comps)))
        # natural scale: |u| * |largest face difference of phi| * (face area / cell volume)
        geo = oracle.Geometry(name, ug['faces'])
        dmax = max(float(np.abs(np.diff(np.array(case['phi'], dtype=float), axis=ax)).max()) for ax in range(nd))
        umax = max(float(np.abs(np.array(c)).max()) for c in case['u'])
        aov = max(float(np.abs(geo.Ad[ax]).max()) for ax in range(nd)) / float(geo.Vd.min())
        sc = max(np.abs(got).max(), np.abs(want).max(), umax * dmax * aov, 1e-300)
        if not (np.all(np.isfinite(got))):
            # non-finite TVD output is C13's subject; here it would only hide the comparison
            res.fail(f"tvd-limiter-nonfinite:{fl}", f"TVD RHS non-finite with limiter {fl} on {name}", float('inf'),
                     None)
        else:
            res.expect_small("tvd-limiter", float(np.abs(got - want).max() / sc), 1e-8, f"tvd-limiter:{name}",
                             f"TVD RHS with limiter {fl} != -div(u*limited correction) on uniform {name}")
    return res
