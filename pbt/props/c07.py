"""C07  Discrete maximum principle for implicit diffusion + upwind advection (+ sink) steps."""
import numpy as np
from hypothesis import strategies as st

import pyfvtool as pf

from .. import gen, problem
from ..common import (AXES, bc_shape, dims_of, full_shape, interior, is_periodic, make_grid, mk_face, nonuniform)
from ..result import Result
from .c12 import _eliminate

ID = "C07"
TOLERANCES = {"range excess (relative to max(|lo|,|hi|,hi-lo))": 1e-7, "M-matrix structure (relative to the row's largest entry)": 1e-10,
              "weights sum to one (relative to the row's coefficients before elimination)": 1e-9}
RULE = ("Generated: grid (9 classes, N 1..4 / 1..3, all spacings, r0 = 0 or offset) x D in [0, contrast 1e6] with exact zeros x "
        "discretely divergence-free u from discrete stream functions (1-D: q/A), amplitude over 4 decades x beta >= 0 (1/3 of cases) "
        "x dt = theta/||A|| with theta over 8 decades x initial field (30 % non-negative) x 1..5 steps x per side Dirichlet "
        "(face-wise data) / no-flux, per non-radial axis periodic.  Oracle: every cell value after each step within [min,max] of "
        "the previous interior values and the Dirichlet data (0 included when beta is present); non-negative data stay "
        "non-negative; mechanism: ghost-eliminated step matrix has non-positive off-diagonals and non-negative row sums, and its weights sum to one (constant data 1 are reproduced exactly without a sink, not exceeded with one).  "
        "Non-trivial = non-constant initial field, theta >= 1, contrast >= 10 or non-uniform spacing, >=1 Dirichlet side.  "
        "Distinct = SHA-1 of the canonical case.")
ASSUMPTIONS = ["periodic axes have equal end cells (K2); the polar angle of SphericalGrid3D is not made periodic"]


@st.composite
def _case(draw):
    g = draw(gen.grids())
    name = g['name']
    d = dims_of(g['faces'])
    nd = len(d)
    faces = [list(f) for f in g['faces']]
    bc = []
    ndir = 0
    for ax, k in enumerate(AXES[name]):
        shp = bc_shape(d, ax)
        ent = dict(periodic='none')
        if k not in ('r', 'ths') and draw(st.integers(0, 3)) == 0:
            ent['periodic'] = draw(st.sampled_from(['both', 'lo', 'hi']))
            faces[ax] = problem.symmetric_ends(faces[ax])
        for side in ('lo', 'hi'):
            if draw(st.booleans()):
                seed = draw(st.integers(0, 2 ** 31 - 1))
                c = gen.expand(draw(st.sampled_from(['generic', 'const', 'pos'])), seed, shp)
                b = gen.expand('generic', seed + 1, shp, 0.5, 3.0)
                ent[side] = dict(kind='D', a=np.zeros(shp).tolist(), b=b.tolist(), c=(b * c).tolist())
                ndir += ent['periodic'] == 'none'
            else:
                ent[side] = dict(kind='N', a=np.ones(shp).tolist(), b=np.zeros(shp).tolist(), c=np.zeros(shp).tolist())
        bc.append(ent)
    P = dict(name=name, faces=faces, bc=bc, scheme='upwind', FL='SUPERBEE', gamma=None,
             bc_style=draw(st.sampled_from(['passed', 'passed', 'late', 'late_min', 'late_c', 'shared_late', 'late_explicit'])))
    P['D'] = draw(gen.diffusivity(d, zeros=True))
    P['u'] = draw(gen.divfree_velocity(name, faces, amp=draw(st.sampled_from([0.0, 1e-2, 1.0, 10.0, 100.0]))))
    nonneg = draw(st.integers(0, 9)) < 3
    init = np.array(draw(gen.cell_interior(d, styles=('generic', 'int', 'zeros', 'quarter'))))
    if nonneg:
        init = np.abs(init)
        for ent in bc:
            for side in ('lo', 'hi'):
                ent[side]['c'] = np.abs(np.array(ent[side]['c'])).tolist()
    P['init'] = init.tolist()
    P['alpha'] = draw(st.one_of(st.sampled_from([1.0, 0.05, 20.0]), gen.arrays(d, styles=('pos',), lo=0.2, hi=3.0, direct=False)))
    P['beta'] = draw(gen.arrays(d, styles=('pos', 'zeros'), lo=0.0, hi=2.0, direct=False)) if draw(st.integers(0, 2)) == 0 else None
    if P['beta'] is not None:
        P['beta'] = np.abs(np.array(P['beta'])).tolist()
    P['steps'] = draw(st.integers(1, 5))
    P['theta'] = draw(st.sampled_from([1.0, 3.0, 6.0])) * 10.0 ** draw(st.integers(-4, 3))
    return dict(P=P, nonneg=nonneg, ndir=ndir)


def strategy(tier):
    return _case()


def budget(tier):
    return 2000 if tier == "quick" else 150000


def _contrast(P):
    vals = np.concatenate([np.array(c, float).ravel() for c in P['D']])
    nz = vals[vals > 0]
    return float(nz.max() / nz.min()) if nz.size else 1.0


def classify(case):
    P = case['P']
    d = dims_of(P['faces'])
    return dict(grid=P['name'], N="x".join(map(str, d)), logtheta=int(np.floor(np.log10(P['theta']))), nonneg=case['nonneg'],
                sink=P['beta'] is not None, ndir=min(case['ndir'], 3), nper=sum(is_periodic(e) for e in P['bc']),
                contrast=int(np.floor(np.log10(_contrast(P)))))


def nontrivial(case):
    P = case['P']
    f = np.array(P['init'])
    return f.max() != f.min() and P['theta'] >= 1 and (_contrast(P) >= 10 or nonuniform(P['faces'])) and case['ndir'] >= 1


def check(case):
    res = Result()
    P = case['P']
    name = P['name']
    d = dims_of(P['faces'])
    if any(is_periodic(e) for e in P['bc']):
        res.excluded.append('K2')
    m, BC, phi = problem.build_var(P)
    nrm = problem.opnorm(m, P)
    if not np.isfinite(nrm):
        res.discarded = True
        return res
    dt = P["theta"] / (nrm if nrm > 0 else 1.0)
    # Dirichlet data
    dvals = []
    for ax, e in enumerate(P['bc']):
        if is_periodic(e):
            continue
        for s in ('lo', 'hi'):
            if e[s]['kind'] == 'D':
                if s == 'lo' and AXES[name][ax] == 'r' and P['faces'][ax][0] == 0.0:
                    continue     # zero-area face at the axis: its datum never reaches a cell
                dvals.append((np.array(e[s]['c'], float) / np.array(e[s]['b'], float)).ravel())
    dvals = np.concatenate(dvals) if dvals else np.array([])
    tag = name

    # mechanism: ghost-eliminated step matrix is an M-matrix
    el = _eliminate(m, P, d, phi)
    if el is not None:
        Ae = el[0]
        nint = Ae.shape[0]
        alpha = np.full(nint, float(P['alpha'])) if np.isscalar(P['alpha']) else np.array(P['alpha'], float).ravel()
        T = np.diag(alpha / dt) + Ae
        rowmax = np.abs(T).max(axis=1) + 1e-300
        off = T - np.diag(np.diag(T))
        worst_off = float((off / rowmax[:, None]).max()) if nint > 1 else 0.0
        res.see("offdiag", max(worst_off, 0.0))
        if worst_off > 1e-10:
            i, j = np.unravel_index(np.argmax(off / rowmax[:, None]), off.shape)
            res.fail(f"positive-offdiagonal:{tag}", f"step matrix (ghosts eliminated) has a positive off-diagonal in row {i} (col {j}) on {name}: "
                     f"{off[i, j]:.3e} vs row scale {rowmax[i]:.3e}", worst_off)
        # the property is claimed for EVERY time step: as dt -> infinity the step matrix tends to the spatial operator itself,
        # so the row sums are examined without the transient diagonal (which would mask an imbalance at moderate dt)
        rowmax_e = np.abs(el[2])[el[4]].sum(axis=1) + 1e-300      # size of the row's coefficients before ghost elimination / cancellation
        rs = np.minimum(T.sum(axis=1) / rowmax, Ae.sum(axis=1) / rowmax_e)
        # boundary data enter the RHS; row sums of the homogeneous operator must not be negative
        res.see("rowsum", float(max(-rs.min(), 0.0)))
        if rs.min() < -1e-9:
            res.fail(f"negative-rowsum:{tag}", f"step matrix (ghosts eliminated) has a negative row sum on {name}: {rs.min():.3e} (relative)", float(-rs.min()))

        # the step's weights must sum to one: with every Dirichlet datum equal to 1 the constant 1 solves the spatial
        # problem exactly (A 1 = s_1) when there is no sink, and A 1 - s_1 = sink >= 0 otherwise.  A spurious source or sink
        # on the diagonal (weights summing to != 1) lets suitable data leave their range even though T stays an M-matrix
        P1 = dict(P, bc=[dict(e, **{sd: (dict(e[sd], c=e[sd]['b']) if e[sd]['kind'] == 'D' else e[sd]) for sd in ('lo', 'hi')}) for e in P['bc']],
                  init=np.ones(d).tolist())
        m1, _, phi1 = problem.build_var(P1, m=m)
        el1 = _eliminate(m, P1, d, phi1)
        if el1 is not None:
            imb = (Ae.sum(axis=1) - el1[1]) / rowmax_e
            res.see("weight-sum", float(np.abs(imb).max() if P['beta'] is None else max(-imb.min(), 0.0)))
            if (P['beta'] is None and np.abs(imb).max() > 1e-9) or imb.min() < -1e-9:
                i = int(np.argmax(np.abs(imb)))
                res.fail(f"weight-sum:{tag}", f"step weights do not sum to one on {name}: with all Dirichlet data = 1 the constant 1 leaves a residual "
                         f"{imb[i]:.3e} (relative) in cell {i} - a spurious {'sink' if imb[i] > 0 else 'source'} on the diagonal", float(np.abs(imb).max()))

    coefs = problem.make_coefs(m, P)        # one velocity / diffusivity object for the whole time loop
    for k in range(P['steps']):
        old = np.asarray(phi.value, float)
        vals = np.concatenate([old.ravel(), dvals])
        lo, hi = float(vals.min()), float(vals.max())
        if P['beta'] is not None:
            lo, hi = min(lo, 0.0), max(hi, 0.0)
        problem.step_implicit(m, phi, P, dt, coefs=coefs)
        new = np.asarray(phi.value, float)
        if not np.all(np.isfinite(new)):
            res.discarded = True
            return res
        slack = 1e-7 * max(abs(lo), abs(hi), hi - lo, 1e-300)
        exc = max(float(new.max() - hi), float(lo - new.min()), 0.0)
        res.see("range-excess", exc / max(abs(lo), abs(hi), hi - lo, 1e-300))
        if exc > slack:
            res.fail(f"range:{tag}", f"step {k + 1} (theta={P['theta']:g}): values [{new.min():.6g}, {new.max():.6g}] leave the range "
                     f"[{lo:.6g}, {hi:.6g}] of previous values and Dirichlet data on {name}", exc / max(abs(lo), abs(hi), hi - lo, 1e-300))
            break
        if case['nonneg'] and new.min() < -slack:
            res.fail(f"negative:{tag}", f"non-negative data produced {new.min():.3e} on {name}")
            break
    return res
