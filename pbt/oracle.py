"""Independent reference models, written from the continuous definitions.
Nothing in here imports pyfvtool.
"""
from fractions import Fraction

import numpy as np

from .common import AXES, NDIM, bc_shape


def _bc(arr, ax, nd):
    shp = [1] * nd
    shp[ax] = -1
    return np.asarray(arr, dtype=float).reshape(shp)


def _prod(factors, nd):
    out = 1.0
    for ax, f in enumerate(factors):
        out = out * _bc(f, ax, nd)
    return np.array(out, dtype=float)


class Geometry:
    """Closed-form geometry of one structured grid.

    V      true geometric cell volumes (per unit height / full angle for the 1D and r-z
           cylindrical classes and full solid angle for SphericalGrid1D, as documented)
    A[ax]  true geometric areas of the faces normal to axis ax (face-shaped arrays)
    Vd,Ad  the *discretisation's* measure (midpoint rule), identical to V,A up to one constant
           factor for eight classes; for SphericalGrid3D it is r_c^2 dr sin(th_c) dth dph
    """

    def __init__(self, name, faces):
        self.name = name
        self.faces = [np.asarray(f, dtype=float) for f in faces]
        nd = self.nd = NDIM[name]
        self.dims = tuple(len(f) - 1 for f in self.faces)
        f = self.faces
        self.w = [np.diff(x) for x in f]                       # cell widths
        self.c = [0.5 * (x[1:] + x[:-1]) for x in f]           # cell centres
        # widths incl. ghost cells (ghost width repeats the end cell)
        self.wg = [np.concatenate([[w[0]], w, [w[-1]]]) for w in self.w]
        # centre-to-centre distances across every face (incl. boundary faces)
        self.dc = [0.5 * (wg[:-1] + wg[1:]) for wg in self.wg]
        one_c = [np.ones(n) for n in self.dims]
        one_f = [np.ones(n + 1) for n in self.dims]
        w, c = self.w, self.c

        def area(ax, cellf, facef):
            fac = [facef if b == ax else cellf[b] for b in range(nd)]
            return _prod(fac, nd)

        if name in ('Grid1D', 'Grid2D', 'Grid3D'):
            self.V = _prod(w, nd)
            self.A = [_prod([one_f[b] if b == a else w[b] for b in range(nd)], nd) for a in range(nd)]
            self.Vd, self.Ad = self.V, self.A
        elif name == 'CylindricalGrid1D':
            r = f[0]
            self.V = np.pi * (r[1:] ** 2 - r[:-1] ** 2)
            self.A = [2 * np.pi * r]
            self.Vd = c[0] * w[0]
            self.Ad = [r.copy()]
        elif name == 'SphericalGrid1D':
            r = f[0]
            self.V = 4.0 / 3.0 * np.pi * (r[1:] ** 3 - r[:-1] ** 3)
            self.A = [4 * np.pi * r ** 2]
            self.Vd = (r[1:] ** 3 - r[:-1] ** 3) / 3.0
            self.Ad = [r ** 2]
        elif name == 'CylindricalGrid2D':
            r = f[0]
            ann = np.pi * (r[1:] ** 2 - r[:-1] ** 2)
            self.V = _prod([ann, w[1]], 2)
            self.A = [_prod([2 * np.pi * r, w[1]], 2), _prod([ann, one_f[1]], 2)]
            self.Vd = _prod([c[0] * w[0], w[1]], 2)
            self.Ad = [_prod([r, w[1]], 2), _prod([c[0] * w[0], one_f[1]], 2)]
        elif name == 'PolarGrid2D':
            r = f[0]
            sec = 0.5 * (r[1:] ** 2 - r[:-1] ** 2)
            self.V = _prod([sec, w[1]], 2)
            self.A = [_prod([r, w[1]], 2), _prod([w[0], one_f[1]], 2)]
            self.Vd = _prod([c[0] * w[0], w[1]], 2)
            self.Ad = [_prod([r, w[1]], 2), _prod([w[0], one_f[1]], 2)]
        elif name == 'CylindricalGrid3D':
            r = f[0]
            sec = 0.5 * (r[1:] ** 2 - r[:-1] ** 2)
            self.V = _prod([sec, w[1], w[2]], 3)
            self.A = [_prod([r, w[1], w[2]], 3), _prod([w[0], one_f[1], w[2]], 3), _prod([sec, w[1], one_f[2]], 3)]
            self.Vd = _prod([c[0] * w[0], w[1], w[2]], 3)
            self.Ad = [_prod([r, w[1], w[2]], 3), _prod([w[0], one_f[1], w[2]], 3),
                       _prod([c[0] * w[0], w[1], one_f[2]], 3)]
        elif name == 'SphericalGrid3D':
            r, th = f[0], f[1]
            shell = (r[1:] ** 3 - r[:-1] ** 3) / 3.0
            sec = 0.5 * (r[1:] ** 2 - r[:-1] ** 2)
            dcos = np.cos(th[:-1]) - np.cos(th[1:])
            self.V = _prod([shell, dcos, w[2]], 3)
            self.A = [_prod([r ** 2, dcos, w[2]], 3), _prod([sec, np.sin(th), w[2]], 3),
                      _prod([sec, w[1], one_f[2]], 3)]
            sth = np.sin(c[1])
            self.Vd = _prod([c[0] ** 2 * w[0], sth * w[1], w[2]], 3)
            self.Ad = [_prod([r ** 2, sth * w[1], w[2]], 3), _prod([c[0] * w[0], np.sin(th), w[2]], 3),
                       _prod([c[0] * w[0], w[1], one_f[2]], 3)]
        else:
            raise ValueError(name)
        self.A = [np.broadcast_to(a, self.fshape(i)).copy() for i, a in enumerate(self.A)]
        self.Ad = [np.broadcast_to(a, self.fshape(i)).copy() for i, a in enumerate(self.Ad)]

    def fshape(self, ax):
        return tuple(n + 1 if b == ax else n for b, n in enumerate(self.dims))

    def metric(self, ax):
        """scale factor h of direction ax at the cells (broadcastable to cell shape):
        arc length = h * d(coordinate)."""
        kind = AXES[self.name][ax]
        nd = self.nd
        if kind in ('x', 'r'):
            return np.ones([1] * nd)
        if kind in ('thc', 'ths'):
            return _bc(self.c[0], 0, nd)
        if kind == 'ph':
            return _bc(self.c[0], 0, nd) * _bc(np.sin(self.c[1]), 1, nd)
        raise ValueError(kind)

    def total_volume(self):
        f = self.faces
        n = self.name
        if n in ('Grid1D', 'Grid2D', 'Grid3D'):
            return float(np.prod([x[-1] - x[0] for x in f]))
        r = f[0]
        if n == 'CylindricalGrid1D':
            return float(np.pi * (r[-1] ** 2 - r[0] ** 2))
        if n == 'SphericalGrid1D':
            return float(4 / 3 * np.pi * (r[-1] ** 3 - r[0] ** 3))
        if n == 'CylindricalGrid2D':
            return float(np.pi * (r[-1] ** 2 - r[0] ** 2) * (f[1][-1] - f[1][0]))
        if n == 'PolarGrid2D':
            return float(0.5 * (r[-1] ** 2 - r[0] ** 2) * (f[1][-1] - f[1][0]))
        if n == 'CylindricalGrid3D':
            return float(0.5 * (r[-1] ** 2 - r[0] ** 2) * (f[1][-1] - f[1][0]) * (f[2][-1] - f[2][0]))
        if n == 'SphericalGrid3D':
            return float((r[-1] ** 3 - r[0] ** 3) / 3 * (np.cos(f[1][0]) - np.cos(f[1][-1])) * (f[2][-1] - f[2][0]))


# --------------------------------------------------------------------------------------
# ghost values: a*(normal difference quotient incl. 1/h) + b*(face average) = c
# --------------------------------------------------------------------------------------

def _slab(nd, ax, idx):
    s = [slice(1, -1)] * nd
    s[ax] = idx
    return tuple(s)


def ghost_reference(geo, interior, bcspec):
    """Full array (ghost layer filled from the reference Robin / periodic relation).
    Corner / edge ghost entries (never used by any stencil) are left at 0."""
    nd = geo.nd
    d = geo.dims
    phi = np.asarray(interior, dtype=float).reshape(d)
    full = np.zeros(tuple(n + 2 for n in d))
    full[tuple(slice(1, -1) for _ in d)] = phi
    for ax in range(nd):
        ent = bcspec[ax]
        first = np.take(phi, 0, axis=ax)
        last = np.take(phi, -1, axis=ax)
        if ent.get('periodic', 'none') != 'none':
            full[_slab(nd, ax, 0)] = last
            full[_slab(nd, ax, -1)] = first
            continue
        h = np.broadcast_to(geo.metric(ax), d)
        h = np.take(h, 0, axis=ax)   # metric factors never depend on the axis' own coordinate
        shp = first.shape if nd > 1 else ()
        d1, de = geo.w[ax][0], geo.w[ax][-1]

        def arr(side, k):
            a = np.asarray(ent[side][k], dtype=float)
            return a.reshape(shp) if nd > 1 else a.reshape(())
        a, b, c = arr('lo', 'a'), arr('lo', 'b'), arr('lo', 'c')
        # a*(in-g)/(h d1) + b*(g+in)/2 = c
        g_lo = (c - first * (a / (h * d1) + b / 2)) / (-a / (h * d1) + b / 2)
        a, b, c = arr('hi', 'a'), arr('hi', 'b'), arr('hi', 'c')
        # a*(g-in)/(h de) + b*(g+in)/2 = c
        g_hi = (c - last * (-a / (h * de) + b / 2)) / (a / (h * de) + b / 2)
        full[_slab(nd, ax, 0)] = g_lo
        full[_slab(nd, ax, -1)] = g_hi
    return full


def bc_residual(geo, full, bcspec):
    """Residual of the Robin relation on every non-periodic boundary face, scaled by the size of its
    terms; list of (axis, side, max scaled residual)."""
    nd = geo.nd
    d = geo.dims
    out = []
    for ax in range(nd):
        ent = bcspec[ax]
        if ent.get('periodic', 'none') != 'none':
            continue
        h = np.take(np.broadcast_to(geo.metric(ax), d), 0, axis=ax)
        shp = h.shape if nd > 1 else ()
        for side, gi, ii, sgn, dd in (('lo', 0, 1, -1.0, geo.w[ax][0]), ('hi', -1, -2, 1.0, geo.w[ax][-1])):
            g = full[_slab(nd, ax, gi)]
            v = full[_slab(nd, ax, ii)]
            a = np.asarray(ent[side]['a'], dtype=float).reshape(shp)
            b = np.asarray(ent[side]['b'], dtype=float).reshape(shp)
            c = np.asarray(ent[side]['c'], dtype=float).reshape(shp)
            t1 = a * sgn * (g - v) / (h * dd)
            t2 = b * (g + v) / 2
            sc = np.abs(a) * (np.abs(g) + np.abs(v)) / (h * dd) + np.abs(b) * (np.abs(g) + np.abs(v)) / 2 + np.abs(c)
            sc = np.where(sc == 0, 1.0, sc)
            out.append((ax, side, float(np.max(np.abs(t1 + t2 - c) / sc))))
    return out


# --------------------------------------------------------------------------------------
# flux limiters: published closed forms, exact rational arithmetic
# --------------------------------------------------------------------------------------

def limiter_exact(name, r):
    """psi(r) for rational r (Fraction), from the published table (Waterson & Deconinck 2007;
    Sweby 1984; en.wikipedia.org/wiki/Flux_limiter).  Values at removable singularities are the
    limits.  beta = 1.5 for Sweby and Osher (the value PyFVTool fixes)."""
    r = Fraction(r)
    F = Fraction
    a = abs(r)
    if name == 'CHARM':
        return r * (3 * r + 1) / (r + 1) ** 2 if r > 0 else F(0)
    if name == 'HCUS':
        return F(3, 2) * (r + a) / (r + 2) if r + 2 != 0 else F(0)   # r=-2: numerator 0 for all r<0
    if name == 'HQUICK':
        return 2 * (r + a) / (r + 3) if r + 3 != 0 else F(0)
    if name == 'ospre':
        return F(3, 2) * (r * r + r) / (r * r + r + 1)
    if name == 'VanLeer':
        return (r + a) / (1 + a)
    if name == 'VanAlbada1':
        return (r * r + r) / (r * r + 1)
    if name == 'VanAlbada2':
        return 2 * r / (r * r + 1)
    if name == 'MinMod':
        return max(F(0), min(F(1), r))
    if name == 'SUPERBEE':
        return max(F(0), min(2 * r, F(1)), min(r, F(2)))
    if name == 'Osher':
        return max(F(0), min(r, F(3, 2)))
    if name == 'Sweby':
        return max(F(0), min(F(3, 2) * r, F(1)), min(r, F(3, 2)))
    if name == 'smart':
        return max(F(0), min(2 * r, F(1, 4) + F(3, 4) * r, F(4)))
    if name == 'Koren':
        return max(F(0), min(2 * r, (1 + 2 * r) / 3, F(2)))
    if name == 'MUSCL':
        return max(F(0), min(2 * r, (1 + r) / 2, F(2)))
    if name == 'QUICK':
        return max(F(0), min(2 * r, (3 + r) / 4, F(2)))
    if name == 'UMIST':
        return max(F(0), min(2 * r, (1 + 3 * r) / 4, (3 + r) / 4, F(2)))
    raise ValueError(name)


CLIPPING = ['MinMod', 'SUPERBEE', 'Osher', 'Sweby', 'Koren', 'MUSCL', 'QUICK', 'UMIST', 'smart', 'VanLeer']


def limiter_float(name, r):
    """Reference psi(r) for float r: exact evaluation on the exact rational value of the double."""
    return float(limiter_exact(name, Fraction(float(r))))


def limiter_np(name, r):
    """vectorised float evaluation of the same published forms (used where exactness is not needed)"""
    r = np.asarray(r, dtype=float)
    a = np.abs(r)
    with np.errstate(all='ignore'):
        if name == 'CHARM':
            return np.where(r > 0, r * (3 * r + 1) / np.where(r > 0, (r + 1) ** 2, 1.0), 0.0)
        if name == 'HCUS':
            return np.where(r > 0, 1.5 * (r + a) / np.where(r > 0, r + 2, 1.0), 0.0)
        if name == 'HQUICK':
            return np.where(r > 0, 2 * (r + a) / np.where(r > 0, r + 3, 1.0), 0.0)
        if name == 'ospre':
            return 1.5 * (r * r + r) / (r * r + r + 1)
        if name == 'VanLeer':
            return (r + a) / (1 + a)
        if name == 'VanAlbada1':
            return (r * r + r) / (r * r + 1)
        if name == 'VanAlbada2':
            return 2 * r / (r * r + 1)
        mn, mx = np.minimum, np.maximum
        if name == 'MinMod':
            return mx(0.0, mn(1.0, r))
        if name == 'SUPERBEE':
            return mx(0.0, mx(mn(2 * r, 1.0), mn(r, 2.0)))
        if name == 'Osher':
            return mx(0.0, mn(r, 1.5))
        if name == 'Sweby':
            return mx(0.0, mx(mn(1.5 * r, 1.0), mn(r, 1.5)))
        if name == 'smart':
            return mx(0.0, mn(mn(2 * r, 0.25 + 0.75 * r), 4.0))
        if name == 'Koren':
            return mx(0.0, mn(mn(2 * r, (1 + 2 * r) / 3), 2.0))
        if name == 'MUSCL':
            return mx(0.0, mn(mn(2 * r, (1 + r) / 2), 2.0))
        if name == 'QUICK':
            return mx(0.0, mn(mn(2 * r, (3 + r) / 4), 2.0))
        if name == 'UMIST':
            return mx(0.0, mn(mn(2 * r, (1 + 3 * r) / 4), mn((3 + r) / 4, 2.0)))
    raise ValueError(name)


def tvd_face_correction(full, ax, nd, lim):
    """Textbook limited anti-diffusive face corrections along axis `ax` on a grid that is uniform
    along that axis.  full = cell array incl. ghost layer.  Returns (psi_plus, psi_minus), both of
    face shape: psi_plus[f] (flow in +direction, donor = cell below the face)
        = 1/2 psi(r) (phi_above - phi_below),  r = (phi_below - phi_below2)/(phi_above - phi_below)
    and symmetrically psi_minus.  Where the 3-cell stencil would need a cell beyond the single
    ghost layer (inflow boundary face) the correction is 0 (the boundary value is used as is).
    Where the face gradient is exactly 0 the correction is 0 (psi finite times zero)."""
    full = np.asarray(full, dtype=float)
    sl = [slice(1, -1)] * nd
    sl[ax] = slice(None)
    line = full[tuple(sl)]                      # interior in the other axes, full along ax
    line = np.moveaxis(line, ax, 0)             # (N+2, ...)
    d = line[1:] - line[:-1]                    # differences across the N+1 faces
    n1 = d.shape[0]
    pp = np.zeros_like(d)
    pm = np.zeros_like(d)
    with np.errstate(all='ignore'):
        # plus: faces 1..N  (need difference across face f-1)
        den = d[1:]
        r = np.where(den != 0, d[:-1] / np.where(den != 0, den, 1.0), 0.0)
        pp[1:] = np.where(den != 0, 0.5 * lim(r) * den, 0.0)
        # minus: faces 0..N-1 (need difference across face f+1)
        den = d[:-1]
        r = np.where(den != 0, d[1:] / np.where(den != 0, den, 1.0), 0.0)
        pm[:-1] = np.where(den != 0, 0.5 * lim(r) * (-den), 0.0)
    return np.moveaxis(pp, 0, ax), np.moveaxis(pm, 0, ax)
