"""Shared helpers: grid table, case <-> pyfvtool objects, JSON, hashing.

A *case* is a JSON-able dict.  Everything here is deterministic.
"""
import hashlib
import json
import warnings

import numpy as np

warnings.filterwarnings("ignore")
np.seterr(all="ignore")

import pyfvtool as pf  # noqa: E402

GRIDS = ["Grid1D", "CylindricalGrid1D", "SphericalGrid1D",
         "Grid2D", "CylindricalGrid2D", "PolarGrid2D",
         "Grid3D", "CylindricalGrid3D", "SphericalGrid3D"]
# axis kinds: 'x' linear, 'r' radial (>=0), 'thc' cylindrical angle in [0,2pi],
# 'ths' polar angle in (0,pi), 'ph' azimuth in [0,2pi]
AXES = dict(Grid1D=['x'], CylindricalGrid1D=['r'], SphericalGrid1D=['r'],
            Grid2D=['x', 'x'], CylindricalGrid2D=['r', 'x'], PolarGrid2D=['r', 'thc'],
            Grid3D=['x', 'x', 'x'], CylindricalGrid3D=['r', 'thc', 'x'],
            SphericalGrid3D=['r', 'ths', 'ph'])
NDIM = {k: len(v) for k, v in AXES.items()}
SIDES = [('left', 'right'), ('bottom', 'top'), ('back', 'front')]
# documented coordinate labels (docs/user_guide/meshes.md) -> internal axis
LABELS = dict(Grid1D=dict(x=0), CylindricalGrid1D=dict(r=0), SphericalGrid1D=dict(r=0),
              Grid2D=dict(x=0, y=1), CylindricalGrid2D=dict(r=0, z=1), PolarGrid2D=dict(r=0, theta=1),
              Grid3D=dict(x=0, y=1, z=2), CylindricalGrid3D=dict(r=0, theta=1, z=2),
              SphericalGrid3D=dict(r=0, theta=1, phi=2))
LIMITERS = ['CHARM', 'HCUS', 'HQUICK', 'ospre', 'VanLeer', 'VanAlbada1', 'VanAlbada2', 'MinMod',
            'SUPERBEE', 'Sweby', 'Osher', 'Koren', 'smart', 'MUSCL', 'QUICK', 'UMIST']


class HarnessError(Exception):
    pass


def A(x):
    return np.asarray(x, dtype=float)


CTOR = 'faces'   # 'NL': use the (N.., L..) constructor form whenever the faces are equispaced from 0 (set by the runner per case)


def nl_able(faces):
    for f in faces:
        f = np.asarray(f, dtype=float)
        if f[0] != 0.0 or len(f) < 2:
            return False
        if not np.allclose(f, np.arange(len(f)) * (f[-1] / (len(f) - 1)), rtol=0, atol=1e-13 * abs(f[-1])):
            return False
    return True


def make_grid(name, faces):
    if CTOR == 'NL' and nl_able(faces):
        fs = [np.asarray(f, dtype=float) for f in faces]
        return getattr(pf, name)(*[len(f) - 1 for f in fs], *[float(f[-1]) for f in fs])
    return getattr(pf, name)(*[_as_int(np.array(f, dtype=float)) for f in faces])


def dims_of(faces):
    return tuple(len(f) - 1 for f in faces)


def face_shapes(d):
    d = tuple(int(x) for x in d)
    if len(d) == 1:
        return [(d[0] + 1,)]
    if len(d) == 2:
        return [(d[0] + 1, d[1]), (d[0], d[1] + 1)]
    return [(d[0] + 1, d[1], d[2]), (d[0], d[1] + 1, d[2]), (d[0], d[1], d[2] + 1)]


def full_shape(d):
    return tuple(int(x) + 2 for x in d)


def inner(d):
    return tuple(slice(1, -1) for _ in d)


def interior(d, vec):
    return np.asarray(vec).reshape(full_shape(d))[inner(d)]


LAYOUT = 'C'     # memory layout of the arrays handed to pyfvtool for the case being evaluated (set by the runner per case)


DTYPE = 'float'  # 'int': arrays whose values are all small whole numbers are handed over as int64 (np.arange-style user input;
                 # |values| <= 1000 so that integer arithmetic inside the library cannot overflow)


def _as_int(a):
    if DTYPE == 'int' and a.size and np.all(np.isfinite(a)) and np.all(a == np.round(a)) and np.abs(a).max() <= 1000:
        return a.astype(np.int64)
    return a


def lay(a):
    """same numbers, requested memory layout: C-contiguous, Fortran-ordered, or a non-contiguous strided view"""
    a = _as_int(np.array(a, dtype=float))
    if LAYOUT == 'F' and a.ndim >= 2:
        return np.asfortranarray(a)
    if LAYOUT == 'strided' and a.ndim >= 1 and a.size:
        big = np.zeros(a.shape[:-1] + (2 * a.shape[-1],), dtype=a.dtype)
        big[..., ::2] = a
        return big[..., ::2]
    return a


FVCTOR = 'ctor'    # 'labels': FaceVariables are created in the scalar form and filled component by component through the grid's
                   # documented component labels (fv.rvalue = array, ...) - set by the runner per case


def mk_face(m, comps):
    comps = [lay(c) for c in comps]
    if FVCTOR == 'labels':
        name = type(m).__name__
        if name in LABELS:
            fv = pf.FaceVariable(m, 0.0)
            for lab, ax in LABELS[name].items():
                if ax < len(comps):
                    setattr(fv, lab + 'value', comps[ax])
            return fv
    while len(comps) < 3:
        comps.append(np.array([]))
    return pf.FaceVariable(m, *comps)


def face_comps(fv, nd):
    return [fv._xvalue, fv._yvalue, fv._zvalue][:nd]


def mk_cell_full(m, full):
    """CellVariable with the given full array (ghost cells included), default BCs."""
    return pf.CellVariable(m, np.array(full, dtype=float))


def bc_shape(d, ax):
    d = tuple(int(x) for x in d)
    if len(d) == 1:
        return (1,)
    return tuple(d[i] for i in range(len(d)) if i != ax)


def apply_bc(BC, spec, minimal=False):
    """spec: list per axis of dict(periodic in {'none','lo','hi','both'}, lo=dict(a,b,c), hi=dict(a,b,c)).
    Coefficients are assigned by slice assignment (the documented way), then periodic flags.
    minimal: only what differs from the current content is touched (a user who changes one thing changes one thing)."""
    for ax, ent in enumerate(spec):
        lo, hi = SIDES[ax]
        for side, sn in (('lo', lo), ('hi', hi)):
            if side in ent and ent[side] is not None:
                f = getattr(BC, sn)
                for k in 'abc':
                    arr = getattr(f, k)
                    new = np.array(ent[side][k], dtype=float).reshape(arr.shape)
                    if minimal and np.array_equal(np.asarray(arr), new):
                        continue
                    arr[:] = new
        p = ent.get('periodic', 'none')
        if p in ('lo', 'both'):
            getattr(BC, lo).periodic = True
        if p in ('hi', 'both'):
            getattr(BC, hi).periodic = True
    return BC


def default_bc_spec(d):
    out = []
    for ax in range(len(d)):
        shp = bc_shape(d, ax)
        e = dict(periodic='none')
        for side in ('lo', 'hi'):
            e[side] = dict(a=np.ones(shp).tolist(), b=np.zeros(shp).tolist(), c=np.zeros(shp).tolist())
        out.append(e)
    return out


def is_periodic(ent):
    return ent.get('periodic', 'none') != 'none'


def jsonable(o):
    if isinstance(o, dict):
        return {str(k): jsonable(v) for k, v in o.items()}
    if isinstance(o, (list, tuple)):
        return [jsonable(v) for v in o]
    if isinstance(o, np.ndarray):
        return jsonable(o.tolist())
    if isinstance(o, (np.floating,)):
        return jsonable(float(o))
    if isinstance(o, (np.integer,)):
        return int(o)
    if isinstance(o, (np.bool_,)):
        return bool(o)
    if isinstance(o, float):
        if o != o:
            return "nan"
        if o in (float('inf'), float('-inf')):
            return "inf" if o > 0 else "-inf"
        return o
    return o


def dumps(o, **kw):
    return json.dumps(jsonable(o), sort_keys=True, **kw)


def case_hash(case):
    return hashlib.sha1(dumps(case).encode()).hexdigest()


def relerr(a, b, scale=None):
    a = np.asarray(a, dtype=float)
    b = np.asarray(b, dtype=float)
    if a.shape != b.shape:
        return float('inf')
    if a.size == 0:
        return 0.0
    if not (np.all(np.isfinite(a)) and np.all(np.isfinite(b))):
        # identical non-finite patterns are not "equal" for our purposes
        return float('inf')
    s = scale if scale is not None else max(np.abs(a).max(), np.abs(b).max())
    if s == 0:
        return 0.0 if np.abs(a - b).max() == 0 else float('inf')
    return float(np.abs(a - b).max() / s)


def nonuniform(faces, tol=1e-9):
    for f in faces:
        w = np.diff(np.asarray(f, dtype=float))
        if len(w) > 1 and (w.max() - w.min()) > tol * w.max():
            return True
    return False


class Failure:
    """One failed sub-oracle evaluation.  bucket = root-cause key used for de-duplication."""
    __slots__ = ("bucket", "msg", "mag", "known")

    def __init__(self, bucket, msg, mag=None, known=None):
        self.bucket = bucket
        self.msg = msg
        self.mag = mag
        self.known = known   # id of the known finding this failure is an instance of, or None

    def as_dict(self):
        return dict(bucket=self.bucket, msg=self.msg, mag=self.mag, known=self.known)

    def __repr__(self):
        return f"Failure({self.bucket!r}, {self.msg!r}, mag={self.mag}, known={self.known})"
