"""Manufactured solutions: sympy derives source term and boundary data of the documented PDE
     alpha*dphi/dt + div(u phi) - div(D grad phi) + beta*phi = gamma,   a*dphi/dn + b*phi = c
from the textbook operators of each coordinate system (scale factors 1, r, r sin(theta)).
Nothing here uses pyfvtool."""
import functools

import numpy as np
import sympy as sp

from .common import AXES, NDIM

PARAMS = ['c0', 'a1', 'a2', 'a3', 'w1', 'w2', 'w3', 'p1', 'p2', 'p3', 'd0', 'd1', 'v1', 'v2', 'v3', 'b0', 'lam', 'al', 't']


def _system(name):
    kinds = AXES[name]
    nd = len(kinds)
    xi = sp.symbols('xi1:%d' % (nd + 1), real=True)
    r = xi[0]
    if name in ('Grid1D', 'Grid2D', 'Grid3D'):
        h = [1] * nd
        J = 1
    elif name in ('CylindricalGrid1D', 'CylindricalGrid2D'):
        h = [1] * nd
        J = r
    elif name == 'PolarGrid2D':
        h = [1, r]
        J = r
    elif name == 'CylindricalGrid3D':
        h = [1, r, 1]
        J = r
    elif name == 'SphericalGrid1D':
        h = [1]
        J = r ** 2
    elif name == 'SphericalGrid3D':
        h = [1, r, r * sp.sin(xi[1])]
        J = r ** 2 * sp.sin(xi[1])
    return kinds, nd, xi, h, J


@functools.lru_cache(maxsize=None)
def build(name, axis, transient):
    """returns dict of numpy functions f(xi..., params...) for phi, gamma, D, u_i, beta, dn_i (normal derivative along axis i)"""
    kinds, nd, xi, h, J = _system(name)
    P = {k: sp.Symbol(k, real=True) for k in PARAMS}
    a = [P['a1'], P['a2'], P['a3']]
    w = [P['w1'], P['w2'], P['w3']]
    p = [P['p1'], P['p2'], P['p3']]
    v = [P['v1'], P['v2'], P['v3']]
    ang = [i for i, k in enumerate(kinds) if k in ('thc', 'ths', 'ph')]
    radial = kinds[0] == 'r'
    r = xi[0]
    # spatial part
    if radial and axis:
        R = 1 + a[0] * sp.cos(w[0] * r)          # even in r: regular at the axis
    else:
        R = 1 + a[0] * sp.sin(w[0] * xi[0] + p[0])
    Z = 1
    for i in range(1, nd):
        if i not in ang:
            Z = Z * (1 + a[i] * sp.sin(w[i] * xi[i] + p[i]))
    if ang:
        A = 1
        for i in ang:
            A = A * a[i] * sp.sin(w[i] * xi[i] + p[i])
        s = r ** 2 if (radial and axis) else 1
        Phi = P['c0'] + R * Z * (1 + s * A)
    else:
        Phi = P['c0'] + R * Z
    g = sp.exp(-P['lam'] * P['t']) if transient else 1
    phi = g * Phi
    # coefficients (regular at the axis; D independent of angular coordinates there)
    D = P['d0'] * (1 + P['d1'] * sp.cos(0.7 * xi[0]) * (sp.cos(0.9 * xi[nd - 1] + 0.3) if (nd > 1 and (nd - 1) not in ang) else 1))
    u = []
    for i in range(nd):
        ui = v[i] * (1 + sp.Rational(3, 10) * sp.sin(0.8 * xi[i] + 0.2 * (i + 1)))
        if radial and axis and (i == 0 or i in ang):
            ui = ui * r
        u.append(ui)
    beta = P['b0'] * (1 + sp.Rational(1, 2) * sp.cos(0.6 * xi[0]))
    grad = [sp.diff(phi, xi[i]) / h[i] for i in range(nd)]
    div_uphi = sum(sp.diff(J * u[i] * phi / h[i], xi[i]) for i in range(nd)) / J
    div_Dgrad = sum(sp.diff(J * D * grad[i] / h[i], xi[i]) for i in range(nd)) / J
    alpha = P['al'] * (1 + sp.Rational(3, 10) * sp.sin(0.5 * xi[0] + 0.1))      # per-cell storage coefficient
    gamma = alpha * sp.diff(phi, P['t']) + div_uphi - div_Dgrad + beta * phi
    args = list(xi) + [P[k] for k in PARAMS]
    mk = lambda e: sp.lambdify(args, e, modules='numpy', cse=True)
    out = dict(phi=mk(phi), gamma=mk(gamma), D=mk(D), beta=mk(beta), alpha=mk(alpha), u=[mk(e) for e in u], dn=[mk(e) for e in grad], nd=nd, kinds=kinds)
    return out


def evalf(f, coords, params):
    """evaluate a lambdified function on broadcastable coordinate arrays"""
    vals = [params[k] for k in PARAMS]
    with np.errstate(all='ignore'):
        out = f(*coords, *vals)
    shape = np.broadcast(*coords).shape
    return np.broadcast_to(np.asarray(out, dtype=float), shape).copy()
