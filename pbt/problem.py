"""Problem cases (grid + BCs + fields + term set) -> pyfvtool objects, time stepping helpers."""
import numpy as np
from hypothesis import strategies as st

import pyfvtool as pf

from . import gen
from . import common
from .common import AXES, apply_bc, bc_shape, dims_of, face_shapes, full_shape, interior, make_grid, mk_face

SCHEMES = ('none', 'central', 'upwind', 'tvd')


def build_var(P, m=None, init=None):
    """solution variable of a problem.  P['bc_style'] = 'late' builds it with default BCs and edits them afterwards
    (the two documented ways of giving a variable its boundary conditions)"""
    m = m or make_grid(P['name'], P['faces'])
    v = common.lay(P['init'] if init is None else init)
    style = P.get('bc_style')
    if style in ('late', 'late_explicit', 'late_min'):
        phi = pf.CellVariable(m, v)
        apply_bc(phi.BCs, P['bc'], minimal=(style == 'late_min'))      # late_min: only entries that differ from the defaults are touched
        if style == 'late_explicit':
            # the variable first serves as the input of an explicit step (result discarded), then goes to the implicit solver
            pf.solveExplicitPDE(phi, 1.0, np.zeros(int(np.prod(full_shape(dims_of(P['faces']))))))
        return m, phi.BCs, phi
    if style == 'late_c':
        # coefficients a, b (and periodic flags) known at construction, the data c assigned later through the property setter
        # on a variable whose state is clean - a boundary value that changes in time
        from .common import SIDES
        zero_c = [dict(e, **{sd: dict(e[sd], c=(np.zeros_like(np.array(e[sd]['c'], float))).tolist()) for sd in ('lo', 'hi')}) for e in P['bc']]
        BC = apply_bc(pf.BoundaryConditions(m), zero_c)
        phi = pf.CellVariable(m, v, BC)
        phi.apply_BCs()
        for ax, e in enumerate(P['bc']):
            for sd, nm in zip(('lo', 'hi'), SIDES[ax]):
                f = getattr(phi.BCs, nm)
                f.c = np.array(e[sd]['c'], float).reshape(f.c.shape)
        return m, phi.BCs, phi
    if style == 'shared_late':
        # one BC object, edited after the solution variable exists and before a second variable is created on it
        BC = pf.BoundaryConditions(m)
        phi = pf.CellVariable(m, v, BC)
        apply_bc(BC, P['bc'])
        pf.CellVariable(m, 0.0, BC)
        return m, BC, phi
    BC = apply_bc(pf.BoundaryConditions(m), P['bc'])
    return m, BC, pf.CellVariable(m, v, BC)


def cellvar(m, arr):
    return pf.CellVariable(m, common.lay(arr))


def make_coefs(m, P):
    """coefficient objects built ONCE (as a user does before a time loop) and reused by every step"""
    c = {}
    if P.get('D') is not None:
        c['D'] = mk_face(m, P['D'])
    if P.get('scheme', 'none') != 'none':
        c['u'] = mk_face(m, P['u'])
        if P.get('uw') is not None:
            c['uw'] = mk_face(m, P['uw'])       # separate upwind-direction field: the two-argument call forms
    if P.get('beta') is not None:
        c['beta'] = cellvar(m, P['beta'])
    if P.get('gamma') is not None:
        c['gamma'] = cellvar(m, P['gamma'])
    a = P.get('alpha', 1.0)
    c['alpha'] = float(a) if np.isscalar(a) else cellvar(m, a)
    return c


def spatial_terms(m, P, phi_for_tvd=None, coefs=None):
    """list of spatial terms in solvePDE convention (sum of matrix terms * phi = sum of vector terms); the terms are
    rebuilt on every call, from the coefficient objects in `coefs` if given (time loop) or from fresh ones"""
    d = dims_of(P['faces'])
    tl = []
    c = coefs if coefs is not None else make_coefs(m, P)
    if P.get('D') is not None:
        tl.append(-pf.diffusionTerm(c['D']))
    sch = P.get('scheme', 'none')
    if sch != 'none':
        u = c['u']
        if sch == 'central':
            tl.append(pf.convectionTerm(u))
        else:
            uw = c.get('uw')
            tl.append(pf.convectionUpwindTerm(u) if uw is None else pf.convectionUpwindTerm(u, uw))
            if sch == 'tvd':
                FL = pf.fluxLimiter(P.get('FL', 'SUPERBEE'))
                tl.append(pf.convectionTVDupwindRHSTerm(u, phi_for_tvd, FL) if uw is None else
                          pf.convectionTVDupwindRHSTerm(u, phi_for_tvd, FL, uw))
    if P.get('beta') is not None:
        tl.append(pf.linearSourceTerm(c['beta']))
    if P.get('gamma') is not None:
        tl.append(pf.constantSourceTerm(c['gamma']))
    return tl


def alpha_arg(m, P):
    a = P.get('alpha', 1.0)
    if np.isscalar(a):
        return float(a)
    return cellvar(m, a)


def step_implicit(m, phi, P, dt=None, coefs=None):
    """one backward-Euler step; with `coefs` (see make_coefs) the step reuses the caller's coefficient objects, as the time
    loops of the documentation do (terms re-assembled inside the loop from objects created before it)"""
    dt = P['dt'] if dt is None else dt
    alpha = coefs['alpha'] if coefs is not None else alpha_arg(m, P)
    tl = [pf.transientTerm(phi, dt, alpha)] + spatial_terms(m, P, phi, coefs)
    return pf.solvePDE(phi, tl)


def run_implicit(P, nsteps=None):
    m, BC, phi = build_var(P)
    coefs = make_coefs(m, P)
    out = [np.array(phi._value)]
    for _ in range(nsteps or P.get('steps', 1)):
        step_implicit(m, phi, P, coefs=coefs)
        out.append(np.array(phi._value))
    return m, phi, out


def spatial_operator(m, P):
    """(A, s): interior rows of  A*full(phi) = s  for the linear part (TVD excluded), as dense arrays"""
    d = dims_of(P['faces'])
    n = int(np.prod(full_shape(d)))
    A = np.zeros((n, n))
    s = np.zeros(n)
    Q = dict(P)
    if Q.get('scheme') == 'tvd':
        Q['scheme'] = 'upwind'
    for t in spatial_terms(m, Q):
        if getattr(t, 'ndim', None) == 2:
            A += t.toarray()
        else:
            s += np.asarray(t)
    return A, s


def opnorm(m, P):
    A, _ = spatial_operator(m, P)
    return float(np.abs(A).sum(axis=1).max())


# ----------------------------------------------------------------------------- strategies

@st.composite
def closed_velocity(draw, name, dims, periodic_axes, upwindish, styles=('generic', 'zeros', 'pos', 'neg', 'int')):
    """velocity with zero wall-normal component on non-periodic boundary faces; on periodic axes the
    first and the last face are one physical face: equal velocity (central) or zero (upwind/TVD, K7)."""
    comps = draw(gen.face_field(dims, styles=styles))
    out = []
    for ax, c in enumerate(comps):
        c = np.array(c, dtype=float)
        lo = [slice(None)] * len(dims)
        hi = [slice(None)] * len(dims)
        lo[ax] = 0
        hi[ax] = -1
        if ax in periodic_axes and not upwindish:
            c[tuple(hi)] = c[tuple(lo)]
        else:
            c[tuple(lo)] = 0.0
            c[tuple(hi)] = 0.0
        out.append(c.tolist())
    return out


def symmetric_ends(faces):
    """make first and last cell of an axis equally wide (K2 exclusion on periodic axes)"""
    f = np.array(faces, dtype=float)
    if len(f) <= 2:
        return f.tolist()
    w = np.diff(f)
    w[-1] = w[0]
    g = f[0] + (f[-1] - f[0]) * np.concatenate([[0.0], np.cumsum(w)]) / w.sum()
    g[-1] = f[-1]
    return g.tolist()


@st.composite
def problems(draw, classes=None, nmax=4, nmax3=3, periodic=True, p_periodic=0.25, schemes=SCHEMES, need_D=True,
             sink='maybe', bc_kinds=('D', 'N', 'R'), k2_exclude=True, alpha_cell=True, gamma=True, spacings=None, dirfield=False):
    """generic well-posed transient problem"""
    from .common import GRIDS, is_periodic
    kw = {}
    if spacings is not None:
        kw['spacings'] = spacings
    g = draw(gen.grids(classes=classes or GRIDS, nmax=nmax, nmax3=nmax3, **kw))
    name = g['name']
    d = dims_of(g['faces'])
    bc = draw(gen.bcs(name, d, kinds=bc_kinds, periodic=periodic, p_periodic=p_periodic))
    faces = [list(f) for f in g['faces']]
    if k2_exclude:
        for ax, ent in enumerate(bc):
            if is_periodic(ent):
                faces[ax] = symmetric_ends(faces[ax])
    P = dict(name=name, faces=faces, bc=bc, spacing=g['spacing'], bc_style=draw(st.sampled_from(['passed', 'late', 'late_min', 'late_c', 'shared_late', 'late_explicit'])))
    P['init'] = draw(gen.cell_interior(d))
    P['scheme'] = draw(st.sampled_from(list(schemes)))
    P['D'] = draw(gen.diffusivity(d, zeros=False)) if (need_D or draw(st.booleans())) else None
    P['u'] = draw(gen.face_field(d))
    P['FL'] = draw(gen.limiter_names)
    if dirfield and P['scheme'] in ('upwind', 'tvd') and draw(st.integers(0, 2)) == 0:
        # the documented optional second argument: a direction field independent of u (never exactly 0: K5)
        seed = draw(st.integers(0, 2 ** 31 - 1))
        P['uw'] = [(gen.expand('pos', seed + i, sh, 0.1, 2.0) * np.where(gen.expand('generic', seed + 10 + i, sh) > 0, 1.0, -1.0)).tolist()
                   for i, sh in enumerate(face_shapes(d))]
    if alpha_cell and draw(st.booleans()):
        P['alpha'] = draw(gen.arrays(d, styles=('pos',), lo=0.2, hi=3.0, direct=False))
    else:
        P['alpha'] = draw(st.sampled_from([1.0, 0.05, 20.0]))
    if sink == 'always' or (sink == 'maybe' and draw(st.booleans())):
        P['beta'] = draw(gen.arrays(d, styles=('pos', 'const_b'), lo=0.1, hi=2.0, direct=False)) if False else \
            draw(gen.arrays(d, styles=('pos',), lo=0.1, hi=2.0, direct=False))
    else:
        P['beta'] = None
    P['gamma'] = draw(gen.cell_interior(d)) if (gamma and draw(st.booleans())) else None
    P['dt'] = 10.0 ** draw(st.floats(-3, 2))
    P['steps'] = draw(st.integers(1, 3))
    return P


def has_dirichlet_or_robin(P):
    """a side that pins the level of the solution (the axis r = 0 has zero area: its condition pins nothing)"""
    from .common import is_periodic
    for ax, e in enumerate(P['bc']):
        if is_periodic(e):
            continue
        for s in ('lo', 'hi'):
            if s == 'lo' and AXES[P['name']][ax] == 'r' and P['faces'][ax][0] == 0.0:
                continue
            if e[s]['kind'] in ('D', 'R'):
                return True
    return False


def step_condition(P):
    """2-norm condition number of the first implicit step's system (dense; small problems only)"""
    m, BC, phi = build_var(P)
    Q = dict(P)
    if Q.get('scheme') == 'tvd':
        Q['scheme'] = 'upwind'
    A, _ = spatial_operator(m, Q)
    Mb, _ = pf.boundaryConditionsTerm(phi.BCs)
    T = Mb.toarray() + A + pf.transientTerm(phi, P['dt'], alpha_arg(m, P))[0].toarray()
    try:
        return float(np.linalg.cond(T))
    except np.linalg.LinAlgError:
        return float('inf')
